"""C11 -- GATT attribute permissions gate every read and write path.

Same model and same real-server driver as C10 (harness/att_common.py).  A case is a PAIR of
databases that differ only in the values of attributes the bearer may not read, the same
sequence of PDUs sent to a real gatt_server.Server built from each: every reading operation
(Read, Read Blob, Read By Type, Read By Group Type, Read Multiple, Read Multiple Variable,
Find By Type Value -- also with the protected value as the guess) through every attribute,
then Write Request / Write Command to every attribute.

Oracle (implementation observables only): (1) the two servers answer every reading PDU
identically; (2) a read / write the link is not entitled to is answered with the Error
Response naming the request, the handle and the first failing requirement (encryption 0x0F,
authentication 0x05, authorisation 0x08), a Write Command with nothing; (3) a refused write
leaves the value unchanged; every request gets exactly one PDU back.
Known finding D11a (READABLE / WRITEABLE never consulted) is reported under its own
signatures, from pairs that differ only in attributes of exactly that class."""
import glob
import json
import os

from harness import att_common as ac

PROP_FILES = ['Props/C11.v']
LEVEL = 'proof'

CORPUS = os.path.join(os.path.dirname(os.path.dirname(os.path.dirname(os.path.abspath(__file__)))), 'corpus', 'C11')

OPNAME = {0x06: 'find_by_type_value', 0x08: 'read_by_type', 0x0A: 'read', 0x0C: 'read_blob', 0x0E: 'read_multiple',
          0x10: 'read_by_group_type', 0x20: 'read_multiple_variable', 0x12: 'write_request', 0x52: 'write_command'}


def regen(ctx):
    from translate import c10_skeleton, c10_tables
    c10_skeleton.regen(ctx)
    c10_tables.regen(ctx)


# ----------------------------------------------------------------------------- generation
def perm_for(k, i):
    """the i-th permission of scenario k: all 256 values are covered by 32 consecutive scenarios"""
    return (k * 8 + i) * 37 % 256      # 37 is odd: a permutation of 0..255


def gen_pair(rng, k, mode, perms=None, sec=None, mtu=None, fixed=None):
    """mode 'strict': the second database differs in every attribute the bearer may not read except those of
    the D11a class; mode 'd11a': it differs only in attributes of the D11a class (not READABLE, link ok).
    perms: explicit permission bytes of the characteristics (the permission matrix cases: 32 per database,
    lighter op list), default 8 from the enumeration."""
    # sec / mtu: security and ATT_MTU of the observing bearer; fixed: {index: value length} of characteristics
    # with a plain value (no refusing function) of that length (several-bearer cases)
    sec = sec or [(False, False), (True, False), (True, True)][k % 3]
    mtu = mtu or rng.choice([23, 23, 24, 30, 64, 185, 517])
    fixed = fixed or {}
    bearer = {'mtu': mtu, 'enc': sec[0], 'auth': sec[1], 'enh': (k // 3) % 2 == 1}
    chars1, chars2 = [], []
    long_len = mtu + rng.range(0, 5)          # long enough for Read Blob
    for i in range(8 if perms is None else len(perms)):
        perm = perm_for(k, i) if perms is None else perms[i]
        uuid = '%04X' % (0x3000 + (i % 3 if rng.chance(1, 2) else i))     # some characteristics share a type
        n = rng.choice([0, 1, 5, 5, 5, 20, long_len, long_len])
        v1 = bytes((0x10 + i + j) & 0xFF for j in range(n))
        rerr = rng.choice([0, 0, 0, 0, 0, 0x80, -1])       # read function raises ATT_Error / something else
        werr = rng.choice([0, 0, 0, 0, 0, 0x81, -1])
        if i in fixed:
            n, rerr, werr = fixed[i], 0, 0
            v1 = bytes((0x10 + i + j) & 0xFF for j in range(n))
        flavor = rng.choice([0, 0, 1, 2, 3]) if not (rerr or werr) else rng.choice([1, 2, 3])
        may = ac.spec_may_read(perm, sec[0], sec[1], rerr)
        d11a = (not perm & ac.P_READABLE) and ac.link_ok_read(perm, sec[0], sec[1]) and rerr == 0
        differ = (not may and not d11a) if mode == 'strict' else d11a
        if differ:
            m = n if rng.chance(1, 2) else rng.choice([0, 3, 5, long_len + 1])
            v2 = bytes((0xA0 + i + 3 * j) & 0xFF for j in range(m))
            if v2 == v1:
                v2 = v1 + b'\x01'
        else:
            v2 = v1
        descs1, descs2 = [], []
        if i % 4 == 1:
            dperm = perm_for(k + 11, i)
            dmay = ac.spec_may_read(dperm, sec[0], sec[1])
            dd11a = (not dperm & ac.P_READABLE) and ac.link_ok_read(dperm, sec[0], sec[1])
            ddiff = (not dmay and not dd11a) if mode == 'strict' else dd11a
            d1 = {'uuid': '2901', 'perm': dperm, 'value': b'desc-one'.hex(), 'rerr': 0, 'werr': 0, 'flavor': 0}
            d2 = dict(d1, value=(b'desc-two!' if ddiff else b'desc-one').hex())
            descs1.append(d1)
            descs2.append(d2)
        # now and then a NOTIFY/INDICATE characteristic: the server adds its own CCCD after it
        base = {'uuid': uuid, 'props': 0x3E if i % 8 == 6 else 0x0E, 'perm': perm, 'rerr': rerr, 'werr': werr,
                'flavor': flavor}
        chars1.append(dict(base, value=v1.hex(), descs=descs1))
        chars2.append(dict(base, value=v2.hex(), descs=descs2))
    decl = {}
    if k % 4 == 3:
        # a protected service declaration: reachable through Read By Group Type / Find By Type Value
        decl['1'] = rng.choice([ac.P_READABLE | ac.P_RENC, ac.P_READABLE | ac.P_RAUTHN, ac.P_READABLE | ac.P_RAUTHZ])
    svc_uuid1, svc_uuid2 = 'AA00', 'AA00'
    if decl and mode == 'strict' and not ac.spec_may_read(decl['1'], sec[0], sec[1]):
        svc_uuid2 = 'BB00'          # the service UUID is the value of the service declaration
    db1 = {'services': [{'uuid': svc_uuid1, 'primary': True, 'chars': chars1}], 'decl_perm': decl}
    db2 = {'services': [{'uuid': svc_uuid2, 'primary': True, 'chars': chars2}], 'decl_perm': decl}
    case = {'mode': mode, 'bearer': bearer, 'db1': db1, 'db2': db2, 'light': perms is not None and not fixed}
    wire = ac.plan_wire(rng, {'bearer': bearer})
    case.update({k: v for k, v in wire.items() if k.startswith('eatt_')})
    return case


# ----------------------------------------------------------------------------- several bearers
PROTECTED = [ac.P_READABLE | ac.P_RENC, ac.P_READABLE | ac.P_RAUTHN, ac.P_READABLE | ac.P_RENC | ac.P_RAUTHN,
             3 | ac.P_RENC | ac.P_WENC, 3 | ac.P_RAUTHN | ac.P_WAUTHN, 3 | ac.P_RENC | ac.P_WAUTHN]


def gen_multi(rng, k):
    """One server, three bearers: 0 = authorised peer (encrypted + authenticated link), 1 = another connection
    whose link is plain or only encrypted, 2 = an EATT bearer on the connection of 0 or of 1.  The two databases
    differ only in values bearer 1 may not read.  After EACH operation of the authorised bearer on a target
    attribute (every reading operation, a forced notification of the current value, Write Request, Write
    Command) the unauthorised bearer(s) run every reading operation on it (Read Blob at offsets 0, 1, mtu-1,
    len-1, len) and finally try to write it."""
    usec = [(False, False), (True, False)][k % 2]
    mtus = [rng.choice([23, 24, 27, 32, 48]) for _ in range(3)]
    eatt_on = (k // 2) % 2                       # whose connection carries the EATT bearer
    long_len = max(mtus) + rng.range(0, 6)
    perms = [PROTECTED[k % 6], PROTECTED[(k + 3) % 6], ac.P_READABLE | ac.P_WRITEABLE | ac.P_RAUTHN | ac.P_RENC,
             3, ac.P_READABLE | ac.P_RAUTHZ] + [perm_for(k, i) for i in range(3)]
    fixed = {0: long_len, 1: rng.choice([0, 1, 7, 21, 22, 23]), 2: long_len + 3, 3: long_len}
    case = gen_pair(rng, k, 'strict', perms=perms, sec=usec, mtu=mtus[1], fixed=fixed)
    asec = (True, True)
    esec = asec if eatt_on == 0 else usec
    case['bearers'] = [{'mtu': mtus[0], 'enc': True, 'auth': True, 'enh': False},
                       {'mtu': mtus[1], 'enc': usec[0], 'auth': usec[1], 'enh': False},
                       {'mtu': mtus[2], 'enc': esec[0], 'auth': esec[1], 'enh': True, 'on': eatt_on}]
    wire = ac.plan_wire(rng, {'bearers': case['bearers']})
    case.update({k: v for k, v in wire.items() if k.startswith('eatt_')})
    case['observers'] = [1] + ([2] if eatt_on == 1 else [])
    case['multi'] = True
    del case['bearer']
    return case


def multi_ops(case, mdb1, mdb2, rng):
    le16 = ac.le16
    bearers = case['bearers']
    plain = next((a[0] for a in mdb1 if a[2] == 1 and a[5] == 0 and bytes(a[1]) == b'\x03\x28'), mdb1[0][0])
    targets = [(a1, a2) for a1, a2 in zip(mdb1, mdb2) if bytes(a1[1]) not in (b'\x00\x28', b'\x03\x28')][:3]
    ops = []

    def reads(k, a1, a2, full):
        h, t = a1[0], bytes(a1[1])
        v1, v2 = bytes(a1[3]), bytes(a2[3])
        mtu = bearers[k]['mtu']
        out = [['rx', (b'\x0a' + le16(h)).hex()]]
        offs = sorted({0, 1, mtu - 1, max(0, len(v1) - 1), len(v1), max(0, len(v2) - 1), len(v2)}) if full else [1, mtu - 1]
        out += [['rx', (b'\x0c' + le16(h) + le16(o)).hex()] for o in offs]
        out.append(['rx', (b'\x08' + le16(h) + le16(h) + t).hex()])
        out.append(['rx', (b'\x0e' + le16(plain) + le16(h)).hex()])
        out.append(['rx', (b'\x20' + le16(h)).hex()])
        if len(t) == 2 and full:
            out.append(['rx', (b'\x06' + le16(h) + le16(h) + t + v1).hex()])
        return [[k, o] for o in out]

    for a1, a2 in targets:
        h, t = a1[0], bytes(a1[1])
        v1 = bytes(a1[3])
        new = bytes((0xC0 + h + j) & 0xFF for j in range(len(v1) + 2))
        authorised = [['rx', (b'\x0a' + le16(h)).hex()], ['rx', (b'\x0c' + le16(h) + le16(0)).hex()],
                      ['rx', (b'\x0c' + le16(h) + le16(1)).hex()], ['rx', (b'\x08' + le16(h) + le16(h) + t).hex()],
                      ['rx', (b'\x0e' + le16(h) + le16(plain)).hex()], ['rx', (b'\x20' + le16(h)).hex()],
                      ['notify', h, None, True]]
        if len(t) == 2:
            authorised.append(['rx', (b'\x06' + le16(h) + le16(h) + t + v1).hex()])
        authorised += [['rx', (b'\x12' + le16(h) + new).hex()], ['rx', (b'\x0a' + le16(h)).hex()],
                       ['rx', (b'\x52' + le16(h) + new[:-1]).hex()]]
        for j, aop in enumerate(authorised):
            who = 0 if (j % 3 or bearers[2]['on'] != 0) else 2     # the authorised peer also uses its EATT bearer
            ops.append([who, aop])
            ops += reads(1, a1, a2, True)
            ops += reads(2, a1, a2, False)
        # the unauthorised bearers try to write, then everybody reads again
        for k in (1, 2):
            full = bytes((0xD0 + h + j) & 0xFF for j in range(bearers[k]['mtu'] - 3))
            ops.append([k, ['rx', (b'\x12' + le16(h) + full).hex()]])
            ops.append([k, ['rx', (b'\x12' + le16(h) + bytes([0xE0, k])).hex()]])
            ops.append([k, ['rx', (b'\x52' + le16(h) + bytes([0xE1, k, 1])).hex()]])
            ops += reads(k, a1, a2, False)
        ops.append([0, ['rx', (b'\x0a' + le16(h)).hex()]])
    return ops


def reading_ops(mdb1, mdb2, mtu, rng, light=False):
    """every reading operation through every attribute; guesses use the values of both databases.
    light: one form per operation, value attributes only (permission matrix cases)"""
    ops = []
    le16 = ac.le16
    plain = next((a[0] for a in mdb1 if a[2] == 1 and a[5] == 0 and bytes(a[1]) == b'\x03\x28'), mdb1[0][0])
    for a1, a2 in zip(mdb1, mdb2):
        h, t = a1[0], bytes(a1[1])
        v1, v2 = bytes(a1[3]), bytes(a2[3])
        if light:
            if t in (b'\x00\x28', b'\x03\x28'):
                continue
            ops.append(['rx', (b'\x0a' + le16(h)).hex()])
            ops.append(['rx', (b'\x0c' + le16(h) + le16(0)).hex()])
            ops.append(['rx', (b'\x08' + le16(h) + le16(h) + t).hex()])
            ops.append(['rx', (b'\x0e' + le16(plain) + le16(h)).hex()])
            ops.append(['rx', (b'\x20' + le16(h)).hex()])
            if len(t) == 2:
                ops.append(['rx', (b'\x06' + le16(h) + le16(h) + t + v1).hex()])
            continue
        ops.append(['rx', (b'\x0a' + le16(h)).hex()])
        for off in sorted({0, 1, max(0, len(v1) - 1)}):
            ops.append(['rx', (b'\x0c' + le16(h) + le16(off)).hex()])
        tp = t if len(t) != 4 else ac.BASE_UUID + t
        ops.append(['rx', (b'\x08' + le16(h) + le16(h) + tp).hex()])
        ops.append(['rx', (b'\x08' + le16(1) + le16(0xFFFF) + tp).hex()])
        ops.append(['rx', (b'\x0e' + le16(h)).hex()])
        ops.append(['rx', (b'\x0e' + le16(plain) + le16(h)).hex()])
        ops.append(['rx', (b'\x20' + le16(h)).hex()])
        ops.append(['rx', (b'\x20' + le16(plain) + le16(h) + le16(plain)).hex()])
        if len(t) == 2:
            for guess in ([v1] if v1 == v2 else [v1, v2]):
                ops.append(['rx', (b'\x06' + le16(1) + le16(0xFFFF) + t + guess).hex()])
                ops.append(['rx', (b'\x06' + le16(h) + le16(h) + t + guess).hex()])
    for gt in (b'\x00\x28', b'\x01\x28'):
        ops.append(['rx', (b'\x10' + le16(1) + le16(0xFFFF) + gt).hex()])
    ops.append(['rx', (b'\x10' + le16(2) + le16(0xFFFF) + b'\x00\x28').hex()])
    return ops


def writing_ops(mdb, rng, mtu=23):
    """Write Request / Write Command to every attribute with short values and with boundary lengths
    (0, ATT_MTU - 3 = the longest value one Write Request can carry, 512), each followed by a read back"""
    ops = []
    for a in mdb:
        h = a[0]
        if bytes(a[1]) in (b'\x00\x28', b'\x03\x28'):
            if rng.chance(2, 3):
                continue                 # declarations: written now and then
        ops.append(['rx', (b'\x12' + ac.le16(h) + bytes([0xE0, h & 0xFF, 1])).hex()])
        ops.append(['rx', (b'\x0a' + ac.le16(h)).hex()])
        ops.append(['rx', (b'\x52' + ac.le16(h) + bytes([0xE1, h & 0xFF, 2, 2])).hex()])
        ops.append(['rx', (b'\x0a' + ac.le16(h)).hex()])
        n = [mtu - 3, 0, 512, mtu - 2][h % 4]
        big = bytes((0xB0 + h + j) & 0xFF for j in range(n))
        ops.append(['rx', (bytes([0x12 if h % 3 else 0x52]) + ac.le16(h) + big).hex()])
        ops.append(['rx', (b'\x0a' + ac.le16(h)).hex()])
    return ops


# ----------------------------------------------------------------------------- oracle
def attr_of(mdb, h):
    return next((a for a in mdb if a[0] == h), None)


def case_bearers(case):
    return case['bearers'] if case.get('multi') else [case['bearer']]


def oracle_pair(case, r1, r2, n_read):
    """non-interference: single bearer -- on the reading prefix of the op list; several bearers -- every response
    to an observing (unauthorised) bearer, whatever the other bearers did in between"""
    ops = r1['ops']
    for i, o in enumerate(ops):
        if case.get('multi'):
            if r1['op_bearer'][i] not in case['observers']:
                continue
        elif i >= n_read:
            break
        if r1['outs'][i] != r2['outs'][i]:
            opc = bytes.fromhex(o[1])[0] if o[0] == 'rx' else 0
            name = OPNAME.get(opc, o[0])
            if case['mode'] == 'd11a':
                yield ('D11a:read:not-READABLE',
                       f'{name} {o[1]}: responses {r1["outs"][i]} / {r2["outs"][i]} differ for two databases that '
                       f'differ only in attributes without the READABLE permission')
            else:
                b = case_bearers(case)[r1['op_bearer'][i]]
                yield (f'leak:{name}' + (':several-bearers' if case.get('multi') else ''),
                       f'op {i} {name} {o[1]} on bearer {r1["op_bearer"][i]} {b}: responses {r1["outs"][i]} / '
                       f'{r2["outs"][i]} differ although the databases differ only in values this bearer may not read')
    for r in (r1, r2):
        if r['stray']:
            yield ('pdu-on-another-bearer', f'PDUs {r["stray"][:3]} were sent on a bearer other than the one stimulated')


def oracle_single(case, r):
    """refusal codes, exactly one reply, refused writes leave the value unchanged (one database); the
    entitlement of each operation is that of the bearer it arrived on"""
    bearers = case_bearers(case)
    mdb = r['db']
    values = {a[0]: bytes(a[3]) for a in mdb}        # tracked through the accepted writes
    written = set()
    for i, (o, out) in enumerate(zip(r['ops'], r['outs'])):
        if o[0] != 'rx':
            continue
        b = bearers[r['op_bearer'][i]]
        enc, auth = b['enc'], b['auth']
        pdu = bytes.fromhex(o[1])
        opc = pdu[0]
        name = OPNAME.get(opc, hex(opc))
        pdus = [bytes.fromhex(p) for p in out]
        if opc in ac.REQUEST_OPCODES and len(pdus) != 1:
            yield (f'no-response:{name}', f'op {i}: {name} {o[1]} got {len(pdus)} PDUs back')
            continue
        if opc == 0x52 and pdus:
            yield ('write-command-answered', f'op {i}: write command {o[1]} got {out}')
        if opc in (0x0A, 0x0C):
            h = pdu[1] | (pdu[2] << 8)
            a = attr_of(mdb, h)
            if a is None:
                continue
            code = ac.first_refusal(a[2], enc, auth)
            p = pdus[0]
            if code is not None:
                want = bytes([0x01, opc]) + ac.le16(h) + bytes([code])
                if p != want:
                    yield (f'refusal-code:{name}', f'op {i}: {name} of handle {h} (permissions 0x{a[2]:02X}, link '
                           f'enc={enc} auth={auth}, bearer {r["op_bearer"][i]}) answered {p.hex()}, expected {want.hex()}')
            elif not a[2] & ac.P_READABLE and a[5] == 0 and not a[7] and p[0] == opc + 1:
                yield ('D11a:read:not-READABLE', f'op {i}: {name} of handle {h} whose permissions 0x{a[2]:02X} lack '
                       f'READABLE returned its value')
        if opc in (0x12, 0x52):
            h = pdu[1] | (pdu[2] << 8)
            a = attr_of(mdb, h)
            if a is None:
                continue
            new = pdu[3:]
            if len(new) > 512:
                continue          # over-long value: INVALID_ATTRIBUTE_LENGTH whatever the permissions (C10's model)
            code = ac.first_refusal(a[2], enc, auth, write=True)
            if code is not None:
                if opc == 0x12:
                    want = bytes([0x01, opc]) + ac.le16(h) + bytes([code])
                    if pdus[0] != want:
                        yield (f'refusal-code:{name}', f'op {i}: {name} to handle {h} (permissions 0x{a[2]:02X}, link '
                               f'enc={enc} auth={auth}, bearer {r["op_bearer"][i]}) answered {pdus[0].hex()}, '
                               f'expected {want.hex()}')
            elif a[6] == 0 and len(new) <= 512 and (opc == 0x52 or pdus[0] == b'\x13'):
                values[h] = new
                written.add(h)
                if not a[2] & ac.P_WRITEABLE and not a[7]:
                    yield ('D11a:write:not-WRITEABLE', f'op {i}: {name} to handle {h} whose permissions 0x{a[2]:02X} '
                           f'lack WRITEABLE was accepted')
    # final values: an attribute none of whose writes was acceptable (link requirement of the writing bearer, or
    # refusing write function) is unchanged; otherwise it holds the last accepted value
    for a, final in zip(mdb, r['values']):
        h = a[0]
        if a[7]:
            continue          # server-made CCCD: its value is the bearer's subscription state (checked by the model)
        if bytes.fromhex(final) != values[h]:
            if h not in written:
                yield ('refused-write-changed-value', f'handle {h} (permissions 0x{a[2]:02X}): value changed from '
                       f'{bytes(a[3]).hex()} to {final} although every write to it was refused')
            else:
                yield ('write-lost', f'handle {h}: final value {final}, expected {values[h].hex()}')


# ----------------------------------------------------------------------------- run
def load_corpus():
    out = []
    for path in sorted(glob.glob(os.path.join(CORPUS, '*.json'))):
        with open(path) as f:
            out.append(json.load(f))
    return out


def build_case(case, rng):
    """scenario pair (same ops) for a case; returns (scn1, scn2, n_read)"""
    key = {'bearers': case['bearers']} if case.get('multi') else {'bearer': case['bearer']}
    key.update({k: case[k] for k in ('eatt_mtu', 'eatt_mps') if k in case})
    probe1 = ac.run_impl(dict(key, db=case['db1'], ops=[]))
    probe2 = ac.run_impl(dict(key, db=case['db2'], ops=[]))
    if 'ops' in case:
        ops, n_read = case['ops'], case['n_read']
    elif case.get('multi'):
        ops = multi_ops(case, probe1['db'], probe2['db'], rng)
        n_read = len(ops)
    else:
        rd = reading_ops(probe1['db'], probe2['db'], case['bearer']['mtu'], rng, case.get('light', False))
        wr = writing_ops(probe1['db'], rng, case['bearer']['mtu'])
        ops, n_read = rd + wr, len(rd)
    s1 = dict(key, db=case['db1'], max_mtu=517, ops=ops)
    s2 = dict(key, db=case['db2'], max_mtu=517, ops=ops)
    return s1, s2, n_read


def coq_of(s, r):
    return ac.coq_scenario_multi(r['db'], s, r['init_mtus']) if 'bearers' in s else ac.coq_scenario(r['db'], s, r['init_mtus'])


def impl_digest(s, r):
    return {'outs': [[ac.digest(bytes.fromhex(p)) for p in out] for out in r['outs']],
            'values': [ac.digest(bytes.fromhex(v)) for v in r['values']],
            'mtu': r['final_mtus'] if 'bearers' in s else r['mtu']}


def check_cases(ctx, cases):
    from lib.verif import _jobs
    rng = ctx.rng.fork('ops')
    built = [build_case(c, rng) for c in cases]
    impl = [(ac.run_impl(s1), ac.run_impl(s2)) for s1, s2, _ in built]
    exprs = []
    for (s1, s2, _), (r1, r2) in zip(built, impl):
        exprs.append(coq_of(s1, r1))
        exprs.append(coq_of(s2, r2))
    model = ctx.coq_eval(['Model.AttServer'], exprs, shard=max(2, (len(exprs) + _jobs() - 1) // _jobs()))
    for k, (case, (s1, s2, n_read), (r1, r2)) in enumerate(zip(cases, built, impl)):
        differing = sum(1 for a, b in zip(r1['db'], r2['db']) if a[3] != b[3])
        kind = 'several-bearers' if case.get('multi') else case['mode']
        ctx.case(('pair', kind, s1, s2['db']), differing > 0,
                 {'mode': kind, 'bearers': case_bearers(case), 'differing_attributes': differing,
                  'ops': len(s1['ops'])} if k % 9 == 0 else None)
        ctx.count('pairs.' + kind)
        ctx.count('pairs.differing_attributes', differing)
        ctx.count('ops', 2 * len(s1['ops']))
        for b in case_bearers(case):
            ctx.count('security.%s%s' % ('enc' if b['enc'] else 'plain', '+auth' if b['auth'] else ''))
            ctx.count('bearer.enhanced' if b.get('enh') else 'bearer.fixed')
        for a in r1['db']:
            ctx.extra.setdefault('perms_seen', set()).add(a[2])
        for o, out in zip(r1['ops'], r1['outs']):
            if o[0] != 'rx':
                ctx.count('op.' + o[0])
                continue
            opc = bytes.fromhex(o[1])[0]
            res = 'error' if out and out[0][:2] == '01' else ('none' if not out else 'ok')
            ctx.count(f'{OPNAME.get(opc, hex(opc))}.{res}')
        rep = {'kind': 'pair', 'case': _case_replay(case, s1, n_read)}
        # correspondence, both databases
        for s, r, mv, which in ((s1, r1, model[2 * k], 1), (s2, r2, model[2 * k + 1], 2)):
            m = ac.model_result(mv)
            i = impl_digest(s, r)
            if m != i:
                bad = None if m is None else next((j for j, (a, b) in enumerate(zip(m['outs'], i['outs'])) if a != b), None)
                ctx.disagree(f'model and implementation differ (database {which})'
                             + (f' at op {bad} {s["ops"][bad]}' if bad is not None else ''), rep,
                             None if m is None else (m['outs'][bad] if bad is not None else [m['values'], m['mtu']]),
                             i['outs'][bad] if bad is not None else [i['values'], i['mtu']])
        # oracle
        for sig, what in oracle_pair(case, r1, r2, n_read):
            ctx.violation(sig, what, rep)
        for r in (r1, r2):
            for sig, what in oracle_single(case, r):
                ctx.violation(sig, what, rep)


def _case_replay(case, s1, n_read):
    out = {k: case[k] for k in ('mode', 'db1', 'db2', 'bearer', 'bearers', 'observers', 'multi', 'light', 'eatt_mtu',
                               'eatt_mps') if k in case}
    out.update(ops=s1['ops'], n_read=n_read)
    return out


def run(ctx):
    ctx.rule = ('case = pair of databases (1 service, 8 characteristics whose permissions enumerate all 256 combinations '
                'over 32 consecutive cases, values 0..ATT_MTU+5 bytes, some callback-backed / refusing, a descriptor, '
                'sometimes a protected service declaration) that differ only in values the bearer may not read, x link '
                'security plain/encrypted/authenticated x fixed/EATT bearer x ATT_MTU; ~170 PDUs: every reading '
                'operation through every attribute (single handle, ranges, handle lists, Find By Type Value guesses of '
                'both values) then Write Request / Command to every attribute. Non-trivial: at least one value differs.')
    ctx.assumptions += [
        'authorisation is never granted by this stack (READ/WRITE_REQUIRES_AUTHORIZATION always refuses)',
        'known finding D11a: READABLE / WRITEABLE are not consulted; C11_read_gated / C11_write_gated exclude exactly '
        'attributes that lack the bit and are not refused by a link requirement (d11a_*_witness), '
        'C11_read_gated_refuted / C11_write_gated_refuted show the hypothesis is needed',
    ]
    ctx.trusted += ['Model/AttServer.v (shared with C10) is tied to gatt_server.py / att.py by differential execution '
                    '(exact PDU bytes, final values) and by Gen/C10Tables.v']
    rng = ctx.rng
    cases = load_corpus()
    base = rng.below(32)
    for k in range(ctx.n(7, 192)):
        cases.append(gen_pair(rng, base + k, 'strict'))
    for k in range(ctx.n(2, 32)):
        cases.append(gen_pair(rng, base + 5 * k, 'd11a'))
    # permission matrix: all 256 permission bytes on every run (32 characteristics per database), each with one
    # link security level that rotates with the seed (thorough: all three)
    for rep in range(ctx.n(1, 3)):
        for j in range(8):
            cases.append(gen_pair(rng, base + j + rep, 'strict', perms=[(j * 32 + i) for i in range(32)]))
    # several bearers on one server: authorised and unauthorised peers interleaved on the same attributes
    for k in range(ctx.n(3, 48)):
        cases.append(gen_multi(rng, base + k))
    for i in range(0, len(cases), 60):
        check_cases(ctx, cases[i:i + 60])
    seen = ctx.extra.pop('perms_seen', set())
    ctx.extra['distinct_permission_values'] = len(seen)


def search(ctx):
    rng = ctx.rng.fork('search')
    for k in range(96):
        case = gen_pair(rng, k, 'strict') if k % 3 else gen_multi(rng, k)
        s1, s2, n_read = build_case(case, rng)
        r1, r2 = ac.run_impl(s1), ac.run_impl(s2)
        rep = {'kind': 'pair', 'case': _case_replay(case, s1, n_read)}
        for sig, what in list(oracle_pair(case, r1, r2, n_read)) + list(oracle_single(case, r1)):
            if not sig.startswith('D11a:'):
                ctx.violation(sig, what, rep)
        if ctx.violations:
            return


def replay(ctx, obj):
    case = obj['replay']['case']
    s1, s2, n_read = build_case(case, ctx.rng)
    r1, r2 = ac.run_impl(s1), ac.run_impl(s2)
    bad = list(oracle_pair(case, r1, r2, n_read)) + list(oracle_single(case, r1)) + list(oracle_single(case, r2))
    for k, o, a, b in zip(r1['op_bearer'], r1['ops'], r1['outs'], r2['outs']):
        print(f'  bearer {k}: {o[1:]} -> {a}' + ('' if a == b else f'   |   second database: {b}'))
    seen = set()
    for sig, what in bad:
        if sig not in seen:
            seen.add(sig)
            print('oracle FAILS:', sig, '-', what)
    if not bad:
        print('oracle: holds')
    return 1 if any(not s.startswith('D11a:') for s, _ in bad) else 0
