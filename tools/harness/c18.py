"""C18 — every protocol data unit above HCI round-trips through its codec.

Correspondence of the hand-written Coq models (Model/Codecs*.v) with the real classes and
functions of bumble (l2cap, rfcomm, sdp, core, hci, avdtp, avctp, rtp), and the property
oracle on the implementation: construct -> bytes -> parse -> equal, and parse -> bytes -> same
bytes, for every hand-modelled codec and for EVERY registered PDU class of every protocol
(L2CAP signalling, ATT, SMP, SDP, AVDTP, AVRCP/AVC, A2DP codec information) on every run.

Signatures of violations: '<protocol>:<class>:<field or boundary>'.
"""
import logging
import struct
import types

from lib.verif import coq_z

PROP_FILES = ['Props/C18.v']
LEVEL = 'proof'

logging.disable(logging.CRITICAL)

MODS = ['Base.Bytes', 'Model.SpecCodec', 'Model.CodecsRegistry', 'Gen.C18Registry', 'Model.CodecsXfields', 'Gen.C18XRegistry', 'Gen.C18AvrcpRegistry', 'Model.CodecsA2dp', 'Model.CodecsBase', 'Gen.C18Tables', 'Model.CodecsL2cap', 'Model.CodecsRfcomm', 'Model.CodecsSdp', 'Model.CodecsSdpState', 'Model.CodecsUuid', 'Model.CodecsAv']


def regen(ctx):
    from translate import c18_tables, c18_registries, c18_shapes
    ctx.write_gen('C18Tables', c18_tables.generate())
    ctx.write_gen('C18Shapes', c18_shapes.generate())
    from translate import c18_fieldsrc
    ctx.write_gen('C18FieldSrc', c18_fieldsrc.generate())
    text, translated, untranslated = c18_registries.translate()
    ctx.write_gen('C18Registry', text)
    ctx.extra['registry_translated'] = len(translated)
    ctx.extra['registry_untranslated'] = untranslated
    xtext, xclasses = c18_registries.translate_x()
    ctx.write_gen('C18XRegistry', xtext)
    ctx.extra['xregistry_classes'] = len(xclasses)
    from translate import c18_avrcp
    atext, atranslated, auntranslated = c18_avrcp.translate()
    ctx.write_gen('C18AvrcpRegistry', atext)
    ctx.extra['avrcp_translated'] = len(atranslated)
    ctx.extra['avrcp_untranslated'] = auntranslated


# ----------------------------------------------------------------------------- helpers
def dgst(b) -> int:
    a = 7
    for x in b:
        a = (a * 31 + x + 1) & 0x3FFFFFFF
    return a


def dg(b):
    return (len(b), dgst(b))


def cb(b) -> str:
    """bytes -> Coq term of type list Z; long runs become (repeat x n) so that 64 KiB
    payloads stay small in the generated file"""
    b = bytes(b)
    if len(b) <= 48:
        return '[' + '; '.join(str(x) for x in b) + ']'
    parts = []
    lit = []
    i = 0
    while i < len(b):
        j = i
        while j < len(b) and b[j] == b[i]:
            j += 1
        if j - i >= 24:
            if lit:
                parts.append('[' + '; '.join(str(x) for x in lit) + ']')
                lit = []
            parts.append(f'repeat {b[i]} {j - i}')
            i = j
        else:
            lit.extend(b[i:j])
            i = j
    if lit:
        parts.append('[' + '; '.join(str(x) for x in lit) + ']')
    return '(' + ' ++ '.join(parts) + ')'


def cz(n) -> str:
    return coq_z(int(n))


def cbool(v) -> str:
    return 'true' if v else 'false'


def norm(v):
    """canonical form of a parsed Coq value / of the expected implementation value:
    pairs are flattened (Coq prints ((a, b), c) as (a, b, c)), lists stay lists,
    ('Some', x) / None are options, booleans and integers are atoms.  Expected values are
    written with Python tuples for Coq pairs, lists for Coq lists, some(x) / None for options."""
    if isinstance(v, tuple):
        if v and v[0] == 'Some':
            inner = norm(v[1] if len(v) == 2 else tuple(v[1:]))
            return ('Some', inner)
        out = []
        for x in v:
            n = norm(x)
            if isinstance(n, tuple) and not (n and n[0] == 'Some'):
                out.extend(n)
            else:
                out.append(n)
        return tuple(out)
    if isinstance(v, list):
        return [norm(x) for x in v]
    if isinstance(v, (bytes, bytearray)):
        return [int(x) for x in v]
    if isinstance(v, bool) or v is None:
        return v
    if isinstance(v, int):
        return int(v)
    if isinstance(v, str) and v == 'None':
        return None
    return v


def some(x):
    return ('Some', x)


def fill(rng, n):
    """n octets: mostly a constant fill (cheap to render) with a few random octets at both ends"""
    if n <= 40:
        return rng.bytes(n)
    return rng.bytes(4) + bytes([rng.below(256)]) * (n - 8) + rng.bytes(4)


class Batch:
    """collects Coq expressions with the implementation's value for the same input"""

    def __init__(self, ctx):
        self.ctx = ctx
        self.items = []
        self.preamble = []

    def add(self, expr, expect, what, case, extra=None):
        self.items.append((expr, expect, what, case, extra))

    def run(self):
        if not self.items:
            return
        vals = self.ctx.coq_eval(MODS, [it[0] for it in self.items], preamble='\n'.join(self.preamble))
        for (expr, expect, what, case, extra), v in zip(self.items, vals):
            m = norm(v)
            if expect is not SKIP and m != norm(expect):
                self.ctx.disagree(what, case, repr(m)[:600], repr(norm(expect))[:600])
            if extra is not None:
                extra(m)
        self.items = []


SKIP = object()


class _Any:
    def __eq__(self, other):
        return True

    def __ne__(self, other):
        return False

    def __repr__(self):
        return '_'


SKIPV = _Any()


def attempt(f, *a, **k):
    """(True, result) or (False, exception class name)"""
    try:
        return True, f(*a, **k)
    except Exception as e:  # noqa: BLE001 - every exception is an error outcome
        return False, type(e).__name__


# ----------------------------------------------------------------------------- L2CAP: ERTM control fields
def ecf_obs(p):
    from bumble import l2cap
    if isinstance(p, l2cap.InformationEnhancedControlField):
        return [0, int(p.tx_seq), int(p.sar), int(p.req_seq), int(p.final)]
    return [1, int(p.supervision_function), int(p.poll), int(p.req_seq), int(p.final)]


ECF_NAMES = [['tx_seq', 'sar', 'req_seq', 'final'], ['supervision_function', 'poll', 'req_seq', 'final']]


def ecf_oracle_value(kind, vals):
    """construct -> bytes -> parse -> equal; returns None or (signature, description)"""
    from bumble import l2cap
    if kind == 0:
        obj = l2cap.InformationEnhancedControlField(tx_seq=vals[0], sar=vals[1], req_seq=vals[2], final=vals[3])
    else:
        obj = l2cap.SupervisoryEnhancedControlField(supervision_function=vals[0], poll=vals[1], req_seq=vals[2],
                                                    final=vals[3])
    b = bytes(obj)
    p = l2cap.EnhancedControlField.from_bytes(b)
    got = ecf_obs(p)
    want = [kind] + list(vals)
    if got != want or not (p == obj):
        bad = 'class' if got[0] != kind else ','.join(n for n, g, w in zip(ECF_NAMES[kind], got[1:], vals) if g != w)
        return (f'l2cap:{type(obj).__name__}:{bad}',
                f'{type(obj).__name__}{tuple(vals)} -> {b.hex()} -> {got}')
    return None


def ecf_oracle_bytes(d):
    """parse -> bytes -> same bytes for a control field whose reserved bits are zero"""
    from bumble import l2cap
    if len(d) < 2:
        return None
    sframe = d[0] & 1
    if sframe and ((d[0] & 0x62) or (d[1] & 0x80)):
        return None
    p = l2cap.EnhancedControlField.from_bytes(d)
    out = bytes(p)
    if out != bytes(d[:2]):
        return (f'l2cap:{type(p).__name__}:bytes', f'{bytes(d[:2]).hex()} parses to {p} which serialises to {out.hex()}')
    return None


def sec_ertm(ctx, B):
    from bumble import l2cap
    rng = ctx.rng.fork('ertm')
    vals = []
    for tx in (0, 1, 31, 62, 63):
        for sar in range(4):
            for req in (0, 1, 63):
                for fin in (0, 1):
                    vals.append((0, (tx, sar, req, fin)))
    for fn in range(4):
        for poll in (0, 1):
            for req in (0, 1, 63, 64, 127):
                for fin in (0, 1):
                    vals.append((1, (fn, poll, req, fin)))
    for _ in range(ctx.n(60, 2000)):
        if rng.chance(1, 2):
            vals.append((0, (rng.below(64), rng.below(4), rng.below(64), rng.below(2))))
        else:
            vals.append((1, (rng.below(4), rng.below(2), rng.below(128), rng.below(2))))
    for kind, v in vals:
        if kind == 0:
            obj = l2cap.InformationEnhancedControlField(tx_seq=v[0], sar=v[1], req_seq=v[2], final=v[3])
            term = f'IFrame {{| i_tx_seq := {v[0]}; i_sar := {v[1]}; i_req_seq := {v[2]}; i_final := {v[3]} |}}'
        else:
            obj = l2cap.SupervisoryEnhancedControlField(supervision_function=v[0], poll=v[1], req_seq=v[2], final=v[3])
            term = f'SFrame {{| s_function := {v[0]}; s_poll := {v[1]}; s_req_seq := {v[2]}; s_final := {v[3]} |}}'
        b = bytes(obj)
        ok, p = attempt(l2cap.EnhancedControlField.from_bytes, b)
        ctx.case(('ecf', kind, v), kind == 0 or v[1] == 1,
                 {'codec': 'l2cap ERTM control field', 'frame': 'IS'[kind], 'fields': list(v), 'bytes': b.hex()} if len(ctx.samples) < 1 else None)
        ctx.count('l2cap.ertm.value.' + 'IS'[kind])
        bad = ecf_oracle_value(kind, v)
        if bad:
            ctx.violation(bad[0], bad[1], {'kind': 'ertm-value', 'frame': kind, 'fields': list(v)})
        B.add(f'(ecf_bytes ({term}), ecf_parse_obs (ecf_bytes ({term})))',
              (list(b), some(ecf_obs(p)) if ok else None), 'ERTM control field value', {'frame': kind, 'fields': list(v)})
    # received octets: first octets x boundary second octets, random pairs, short input
    ds = [bytes([a, b]) for a in range(256) for b in (0, 0x3F, 0x40, 0x7F, 0x80, 0xFF)]
    ds = rng.shuffle(ds)[:ctx.n(120, 1536)]
    ds += [b'', b'\x00', b'\x01', b'\x11\x05\xaa']
    ds += [rng.bytes(2) + rng.bytes(rng.below(3)) for _ in range(ctx.n(60, 1500))]
    for d in ds:
        ok, p = attempt(l2cap.EnhancedControlField.from_bytes, d)
        ctx.case(('ecf-bytes', d), len(d) >= 2)
        ctx.count('l2cap.ertm.bytes')
        bad = ecf_oracle_bytes(d)
        if bad:
            ctx.violation(bad[0], bad[1], {'kind': 'ertm-bytes', 'data': d.hex()})
        B.add(f'(ecf_parse_obs {cb(d)}, option_map ecf_bytes (ecf_parse {cb(d)}))',
              (some(ecf_obs(p)), some(list(bytes(p)))) if ok else (None, None),
              'ERTM control field bytes', {'data': d.hex()})


# ----------------------------------------------------------------------------- L2CAP: PDU header, PSM, options
def psm_spec_valid(v):
    """Vol 3 Part A 4.2: at least two octets, every octet above the first odd except the most
    significant one, which is even (independent statement, not derived from the model)"""
    if v < 0:
        return False
    octs = []
    x = v
    while x:
        octs.append(x & 0xFF)
        x >>= 8
    while len(octs) < 2:
        octs.append(0)
    upper = octs[1:]
    return all(o & 1 for o in upper[:-1]) and upper[-1] & 1 == 0


def sec_l2cap_misc(ctx, B):
    from bumble import l2cap
    rng = ctx.rng.fork('l2cap-misc')
    # ---- basic PDU
    for cid in (0, 1, 0x40, 0xFFFF, 0x10000):
        for n in (0, 1, 2, 255, 256, 1000, 65535, 65536):
            if n >= 65535 and cid != 0x40:
                continue
            payload = fill(rng, n)
            tail = rng.bytes(rng.below(3))
            ok, b = attempt(lambda: bytes(l2cap.L2CAP_PDU(cid, payload)))
            expect = None
            if ok:
                p = l2cap.L2CAP_PDU.from_bytes(b + tail)
                expect = some((dg(b), (p.cid, dg(p.payload))))
                if (p.cid, bytes(p.payload)) != (cid, payload):
                    ctx.violation('l2cap:L2CAP_PDU:length', f'cid={cid} len={n} parses back as cid={p.cid} len={len(p.payload)}',
                                  {'kind': 'l2cap-pdu', 'cid': cid, 'len': n})
                if bytes(l2cap.L2CAP_PDU.from_bytes(b)) != b:
                    ctx.violation('l2cap:L2CAP_PDU:bytes', f'cid={cid} len={n} does not re-serialise identically',
                                  {'kind': 'l2cap-pdu', 'cid': cid, 'len': n})
            ctx.case(('pdu', cid, n), n > 0)
            ctx.count('l2cap.pdu')
            B.add(f'match pdu_bytes {cz(cid)} {cb(payload)} with Some b => '
                  f'match pdu_parse (b ++ {cb(tail)}) with Some (c, p) => Some (dg b, (c, dg p)) | None => None end '
                  f'| None => None end', expect, 'L2CAP_PDU', {'cid': cid, 'len': n})
    for _ in range(ctx.n(30, 400)):
        d = rng.bytes(rng.choice([0, 1, 3, 4, 5, 8, 12]))
        ok, p = attempt(l2cap.L2CAP_PDU.from_bytes, d)
        ctx.case(('pdu-bytes', d), len(d) >= 4)
        ctx.count('l2cap.pdu.bytes')
        B.add(f'pdu_parse {cb(d)}', some((p.cid, list(p.payload))) if ok else None, 'L2CAP_PDU.from_bytes', {'data': d.hex()})
    # ---- PSM
    psms = [0x0001, 0x0003, 0x000F, 0x0011, 0x0019, 0x1001, 0xFEFF, 0x0101, 0x0100, 0, 2, 0xFFFF, 0x10000, 0x010101,
            0x020101, 0x00010101 | (2 << 24), 0x1001 | (0x0201 << 16), 0x800001]
    for _ in range(ctx.n(60, 1500)):
        n = rng.choice([2, 2, 2, 3, 3, 4, 5, 6])
        octs = [rng.below(256)] + [rng.below(128) * 2 + 1 for _ in range(n - 2)] + [rng.below(128) * 2]
        if rng.chance(1, 6):
            octs[rng.below(n)] = rng.below(256)      # possibly invalid
        psms.append(int.from_bytes(bytes(octs), 'little'))
    for v in psms:
        tail = rng.bytes(rng.choice([0, 0, 2, 3]))
        ser = l2cap.L2CAP_Connection_Request.serialize_psm(v)
        ok, r = attempt(l2cap.L2CAP_Connection_Request.parse_psm, ser + tail, 0)
        valid = psm_spec_valid(v)
        ctx.case(('psm', v, tail), valid and v > 0xFFFF)
        ctx.count('l2cap.psm.valid' if valid else 'l2cap.psm.invalid')
        ctx.count(f'l2cap.psm.octets.{len(ser)}')
        if valid and not (ok and r == (len(ser), v)):
            ctx.violation('l2cap:L2CAP_Connection_Request:psm', f'PSM {v:#x} -> {ser.hex()} -> {r}',
                          {'kind': 'psm', 'psm': v})
        B.add(f'(psm_ok {cz(v)}, psm_bytes {cz(v)}, psm_parse (psm_bytes {cz(v)} ++ {cb(tail)}))',
              (valid, list(ser), some((r[1], list((ser + tail)[r[0]:]))) if ok else None), 'PSM codec', {'psm': v})
    # ---- configuration options
    for _ in range(ctx.n(60, 1000)):
        opts = []
        for _ in range(rng.choice([0, 1, 1, 2, 3, 6])):
            opts.append((rng.choice([1, 2, 3, 4, 5, 6, 7, 0x80, 0xFF, rng.below(256)]),
                         fill(rng, rng.choice([0, 1, 2, 4, 9, 22, 254, 255, 255, 256 if rng.chance(1, 8) else 16]))))
        ok, b = attempt(l2cap.L2CAP_Control_Frame.encode_configuration_options, opts)
        expect = None
        if ok:
            dec = l2cap.L2CAP_Control_Frame.decode_configuration_options(b)
            expect = some((dg(b), [(int(t), dg(v)) for t, v in dec]))
            if [(int(t), bytes(v)) for t, v in dec] != [(t, bytes(v)) for t, v in opts]:
                ctx.violation('l2cap:configuration_options:length', f'options {[(t, len(v)) for t, v in opts]} decode differently',
                              {'kind': 'options', 'options': [[t, v.hex()] for t, v in opts]})
            if l2cap.L2CAP_Control_Frame.encode_configuration_options(dec) != b:
                ctx.violation('l2cap:configuration_options:bytes', 'decoded options do not re-encode identically',
                              {'kind': 'options', 'options': [[t, v.hex()] for t, v in opts]})
        ctx.case(('opts', [(t, bytes(v)) for t, v in opts]), len(opts) > 0)
        ctx.count('l2cap.options.value')
        term = '[' + '; '.join(f'({t}, {cb(v)})' for t, v in opts) + ']'
        B.add(f'match tlv_encode {term} with Some b => match tlv_decode_all false b with '
              f'Some l => Some (dg b, map (fun o => (fst o, dg (snd o))) l) | None => None end | None => None end',
              expect, 'configuration options', {'options': [[t, len(v)] for t, v in opts]})
    for _ in range(ctx.n(60, 1000)):
        d = rng.bytes(rng.choice([0, 1, 2, 3, 4, 6, 9, 14]))
        if rng.chance(1, 2) and len(d) >= 2:
            d = bytes([d[0], min(d[1], len(d))]) + d[2:]
        dec = l2cap.L2CAP_Control_Frame.decode_configuration_options(d)
        ctx.case(('opts-bytes', d), len(d) >= 2)
        ctx.count('l2cap.options.bytes')
        B.add(f'tlv_decode_all false {cb(d)}', some([(int(t), list(v)) for t, v in dec]),
              'decode_configuration_options', {'data': d.hex()})


# ----------------------------------------------------------------------------- RFCOMM
def rfcomm_spec_frame(ftype, cr, dlci, pf, payload, credits=None, two_octets=None, fcs_delta=0):
    """a frame laid out as TS 07.10 / RFCOMM 5.x say, with an independent bitwise CRC-8
    (not bumble's table): address, control, 1- or 2-octet length (EA bit), [credits], payload, FCS"""
    addr = (dlci << 2) | (cr << 1) | 1
    ctrl = ftype | (pf << 4)
    n = len(payload)
    if two_octets is None:
        two_octets = n > 127
    ln = bytes([(n & 0x7F) << 1, n >> 7]) if two_octets else bytes([(n << 1) | 1])
    covered = bytes([addr, ctrl]) + (b'' if ftype == 0xEF else ln)
    c = 0xFF
    for byte in covered:
        c ^= byte
        for _ in range(8):
            c = (c >> 1) ^ 0xE0 if c & 1 else c >> 1
    fcs = ((0xFF - c) + fcs_delta) & 0xFF
    return bytes([addr, ctrl]) + ln + (bytes([credits]) if credits is not None else b'') + payload + bytes([fcs])


def frame_fields(f):
    return [int(f.type), int(f.c_r), int(f.dlci), int(f.p_f)], bytes(f.information)


FRAME_OBS = ('match {0} with Some g => Some (fst (fst (frame_obs g)), dg (f_info g), dg (frame_bytes g)) | None => None end')


def sec_rfcomm(ctx, B):
    from bumble import rfcomm
    rng = ctx.rng.fork('rfcomm')
    FT = rfcomm.FrameType
    types_ = [FT.SABM, FT.UA, FT.DM, FT.DISC, FT.UIH, FT.UI]
    lens = [0, 1, 2, 126, 127, 128, 129, 255, 256, 1000]
    cases = []
    for n in lens:
        for pf in (0, 1):
            cases.append((FT.UIH, rng.below(2), rng.choice([0, 1, 2, 31, 61, 63]), pf, n))
    for t in types_:
        for pf in (0, 1):
            cases.append((t, rng.below(2), rng.below(64), pf, rng.choice([0, 0, 1, 127, 128])))
    for _ in range(ctx.n(60, 1500)):
        cases.append((rng.choice(types_), rng.below(2), rng.below(64), rng.below(2),
                      rng.choice(lens + [rng.below(300)])))
    if not ctx.quick():
        cases += [(FT.UIH, 1, 5, 1, 32767), (FT.UIH, 1, 5, 0, 32767), (FT.UIH, 1, 5, 1, 32768), (FT.UIH, 0, 5, 0, 32768)]
    for t, cr, dlci, pf, n in cases:
        credits = (t == FT.UIH and pf == 1)
        # n = payload length; with credits the information field carries one more octet first
        info = (bytes([rng.below(256)]) if credits else b'') + fill(rng, n)
        replay = {'kind': 'rfcomm-frame', 'type': int(t), 'cr': cr, 'dlci': dlci, 'pf': pf, 'info': info.hex(), 'credits': credits}
        bad = rfcomm_frame_oracle(int(t), cr, dlci, pf, info, credits)
        if bad and n <= 32767:
            ctx.violation(bad[0], bad[1], replay)
        ok, f = attempt(rfcomm.RFCOMM_Frame, t, cr, dlci, pf, info, credits)
        expect = SKIP
        if ok:
            b = bytes(f)
            ok2, p = attempt(rfcomm.RFCOMM_Frame.from_bytes, b)
            if ok2:
                fl, inf = frame_fields(p)
                expect = (dg(b), some((fl, dg(inf), dg(bytes(p)))))
            else:
                expect = (dg(b), None)
        ctx.case(('rfcomm', int(t), cr, dlci, pf, n), n in (127, 128) or credits,
                 {'codec': 'RFCOMM_Frame', 'type': t.name, 'payload_octets': n, 'credits': credits} if len(ctx.samples) < 2 else None)
        ctx.count('rfcomm.frame.value')
        ctx.count('rfcomm.frame.len.' + ('2-octet' if n > 127 else '1-octet') + ('.credits' if credits else ''))
        term = (f'{{| f_type := {int(t)}; f_cr := {cr}; f_dlci := {dlci}; f_pf := {pf}; f_info := {cb(info)}; '
                f'f_credits := {cbool(credits)} |}}')
        if n <= 32767:      # frame_ok; beyond it the model makes no claim
            B.add(f'let f := {term} in (dg (frame_bytes f), ' + FRAME_OBS.format('frame_parse (frame_bytes f)') + ')',
                  expect, 'RFCOMM_Frame value', {'case': [int(t), cr, dlci, pf, n]})
    # received frames: laid out by the specification, then also broken ones
    rx = []
    for n in [0, 1, 126, 127, 128, 129, 300]:
        for pf in (0, 1):
            rx.append((rfcomm_spec_frame(0xEF, 1, 7, pf, fill(rng, n), credits=rng.below(256) if pf else None), True, n, pf))
    for _ in range(ctx.n(80, 2000)):
        t = int(rng.choice(types_))
        pf = rng.below(2)
        n = rng.choice([0, 1, 5, 127, 128, 200])
        credits = rng.below(256) if (t == 0xEF and pf == 1) else None
        kind = rng.below(10)
        f = rfcomm_spec_frame(t, rng.below(2), rng.below(64), pf, fill(rng, n), credits=credits,
                              two_octets=True if kind == 0 else None, fcs_delta=1 if kind == 1 else 0)
        if kind == 2:
            f = f[:rng.below(len(f))]
        if kind == 3:
            f = bytes([f[0] & 0xFE]) + f[1:]       # EA bit of the address cleared
        if kind == 4:
            f = f[:1] + bytes([rng.below(256)]) + f[2:]
        rx.append((f, kind >= 5 or (kind == 0 and n > 127), n, pf if t == 0xEF else 0))
    for d, wellformed, n, pf in rx:
        ok, p = attempt(rfcomm.RFCOMM_Frame.from_bytes, d)
        expect = None
        if ok:
            fl, inf = frame_fields(p)
            expect = some((fl, dg(inf), dg(bytes(p))))
        ctx.case(('rfcomm-rx', d), ok)
        ctx.count('rfcomm.frame.bytes.' + ('accepted' if ok else 'rejected'))
        if wellformed and (not ok or bytes(p) != d):
            ctx.violation(f'rfcomm:RFCOMM_Frame:len{n}' + ('+credits' if pf else ''),
                          f'frame with {n} payload octets laid out per the specification ({d[:4].hex()}..): '
                          + (f'rejected ({p})' if not ok else f're-serialises as {bytes(p)[:4].hex()}..'),
                          {'kind': 'rfcomm-rx', 'data': d.hex()})

        def extra(m, ok=ok, p=p, d=d, expect=expect):
            if m[0] != norm(expect):
                ctx.disagree('RFCOMM_Frame.from_bytes', {'data': d[:12].hex(), 'len': len(d)}, repr(m[0])[:400], repr(norm(expect))[:400])
            # the model's own canonical-form predicate must imply byte identity on the implementation
            if m[1] is True and m[0] is not None and (not ok or bytes(p) != d):
                ctx.disagree('frame_canonical but not byte-identical', {'data': d[:12].hex(), 'len': len(d)}, True, False)
        B.add('(' + FRAME_OBS.format(f'frame_parse {cb(d)}') + f', frame_canonical {cb(d)})',
              SKIP, 'RFCOMM_Frame.from_bytes', {'data': d[:12].hex(), 'len': len(d)}, extra=extra)
    # ---- multiplexer commands
    for _ in range(ctx.n(60, 1000)):
        t = rng.choice([0x20, 0x38, 0x28, 0x08, 0x04, 0x24, 0x10, rng.below(64)])
        cr = rng.below(2)
        n = rng.choice([0, 1, 2, 8, 126, 127, 128, 129, 200, 300])
        v = fill(rng, n)
        b = rfcomm.RFCOMM_Frame.make_mcc(t, cr, v)
        ok, r = attempt(rfcomm.RFCOMM_Frame.parse_mcc, b)
        ctx.case(('mcc', t, cr, n), n > 127)
        ctx.count('rfcomm.mcc.value.' + ('2-octet' if n > 127 else '1-octet'))
        if not ok or (r[0], bool(r[1]), bytes(r[2])) != (t, bool(cr), v):
            ctx.violation(f'rfcomm:MCC:len{n}', f'MCC type={t} c/r={cr} with {n} value octets does not parse back',
                          {'kind': 'mcc', 'type': t, 'cr': cr, 'value': v.hex()})
        B.add(f'(dg (mcc_bytes {t} {cr} {cb(v)}), match mcc_parse (mcc_bytes {t} {cr} {cb(v)}) with '
              f'Some (t, c, v) => Some (t, c, dg v) | None => None end)',
              (dg(b), some((r[0], bool(r[1]), dg(r[2]))) if ok else None), 'RFCOMM MCC value', {'case': [t, cr, n]})
    for _ in range(ctx.n(60, 1000)):
        t = rng.below(64)
        cr = rng.below(2)
        n = rng.choice([0, 1, 8, 127, 128, 200, 300])
        v = fill(rng, n)
        two = n > 127 or rng.chance(1, 8)
        ln = bytes([(n & 0x7F) << 1, n >> 7]) if two else bytes([(n << 1) | 1])
        d = bytes([(t << 2) | (cr << 1) | 1]) + ln + v       # TS 07.10 5.4.6.1 layout
        kind = rng.below(8)
        if kind == 0:
            d = d[:rng.below(len(d) + 1)]
        ok, r = attempt(rfcomm.RFCOMM_Frame.parse_mcc, d)
        expect = None
        if ok:
            expect = some((r[0], bool(r[1]), dg(r[2]), dg(rfcomm.RFCOMM_Frame.make_mcc(r[0], int(r[1]), bytes(r[2])))))
        wellformed = kind != 0 and (n > 127) == two
        ctx.case(('mcc-rx', d), two)
        ctx.count('rfcomm.mcc.bytes')
        if wellformed and (not ok or rfcomm.RFCOMM_Frame.make_mcc(r[0], int(r[1]), bytes(r[2])) != d):
            ctx.violation(f'rfcomm:MCC:len{n}', f'well-formed MCC {d[:4].hex()}.. ({n} value octets) ' +
                          ('is rejected' if not ok else f'parses to {len(r[2])} value octets and re-serialises differently'),
                          {'kind': 'mcc-rx', 'data': d.hex()})
        B.add(f'match mcc_parse {cb(d)} with Some (t, c, v) => Some (t, c, dg v, dg (mcc_bytes t (bool_z c) v)) | None => None end',
              expect, 'RFCOMM parse_mcc', {'data': d[:8].hex(), 'len': len(d)})
    # ---- PN / MSC
    PN = ['dlci', 'cl', 'priority', 'ack_timer', 'max_frame_size', 'max_retransmissions', 'initial_credits']
    for _ in range(ctx.n(60, 800)):
        p = [rng.choice([0, 1, 63, 255]), rng.choice([0, 0xE0, 0xF0, 255]), rng.below(256), rng.below(256),
             rng.choice([0, 1, 127, 128, 255, 256, 1000, 65535]), rng.below(256), rng.choice([0, 1, 7, rng.below(8)])]
        obj = rfcomm.RFCOMM_MCC_PN(*p)
        b = bytes(obj)
        q = rfcomm.RFCOMM_MCC_PN.from_bytes(b + rng.bytes(rng.below(2)))
        got = [getattr(q, n) for n in PN]
        ctx.case(('pn', tuple(p)), p[4] > 255)
        ctx.count('rfcomm.pn.value')
        if got != p or not (q == obj):
            ctx.violation('rfcomm:RFCOMM_MCC_PN:' + ','.join(n for n, g, w in zip(PN, got, p) if g != w),
                          f'PN{tuple(p)} parses back as {got}', {'kind': 'pn', 'fields': p})
        pl = '[' + '; '.join(map(str, p)) + ']'
        B.add(f'(pn_bytes {pl}, pn_parse (pn_bytes {pl}))', (list(b), some(got)), 'RFCOMM_MCC_PN', {'fields': p})
    for _ in range(ctx.n(40, 600)):
        d = rng.bytes(rng.choice([8, 8, 8, 9, 7, 3]))
        ok, q = attempt(rfcomm.RFCOMM_MCC_PN.from_bytes, d)
        expect = None
        if ok:
            expect = some(([getattr(q, n) for n in PN], list(bytes(q))))
            if len(d) == 8 and d[7] < 8 and bytes(q) != d:
                ctx.violation('rfcomm:RFCOMM_MCC_PN:bytes', f'{d.hex()} re-serialises as {bytes(q).hex()}', {'kind': 'pn-rx', 'data': d.hex()})
        ctx.case(('pn-rx', d), ok)
        ctx.count('rfcomm.pn.bytes')
        B.add(f'match pn_parse {cb(d)} with Some p => Some (p, pn_bytes p) | None => None end', expect,
              'RFCOMM_MCC_PN.from_bytes', {'data': d.hex()})
    MSC = ['dlci', 'fc', 'rtc', 'rtr', 'ic', 'dv']
    for dlci in (0, 1, 2, 31, 62, 63):
        for bits in range(32):
            p = [dlci] + [(bits >> k) & 1 for k in range(5)]
            obj = rfcomm.RFCOMM_MCC_MSC(*p)
            b = bytes(obj)
            q = rfcomm.RFCOMM_MCC_MSC.from_bytes(b)
            got = [getattr(q, n) for n in MSC]
            ctx.case(('msc', tuple(p)), bits != 0)
            ctx.count('rfcomm.msc.value')
            if got != p or not (q == obj):
                ctx.violation('rfcomm:RFCOMM_MCC_MSC:' + ','.join(n for n, g, w in zip(MSC, got, p) if g != w),
                              f'MSC{tuple(p)} parses back as {got}', {'kind': 'msc', 'fields': p})
            B.add(f'(msc_bytes {cb(p)}, msc_parse (msc_bytes {cb(p)}))', (list(b), some(got)), 'RFCOMM_MCC_MSC', {'fields': p})
    for _ in range(ctx.n(40, 600)):
        d = rng.bytes(rng.choice([2, 2, 3, 1]))
        ok, q = attempt(rfcomm.RFCOMM_MCC_MSC.from_bytes, d)
        expect = some(([getattr(q, n) for n in MSC], list(bytes(q)))) if ok else None
        if ok and len(d) == 2 and d[0] & 3 == 3 and d[1] & 1 and not d[1] & 0x30 and bytes(q) != d:
            ctx.violation('rfcomm:RFCOMM_MCC_MSC:bytes', f'{d.hex()} re-serialises as {bytes(q).hex()}', {'kind': 'msc-rx', 'data': d.hex()})
        ctx.case(('msc-rx', d), ok)
        ctx.count('rfcomm.msc.bytes')
        B.add(f'match msc_parse {cb(d)} with Some p => Some (p, msc_bytes p) | None => None end', expect,
              'RFCOMM_MCC_MSC.from_bytes', {'data': d.hex()})
    # the FCS itself: bumble's table-driven compute_fcs against the bitwise CRC of the model
    for _ in range(ctx.n(40, 600)):
        d = rng.bytes(rng.choice([0, 1, 2, 3, 4, 10]))
        want = rfcomm.compute_fcs(d)
        ctx.case(('fcs', d), len(d) > 0)
        ctx.count('rfcomm.fcs')
        B.add(f'(compute_fcs {cb(d)}, fcs_spec {cb(d)})', (want, want), 'compute_fcs', {'data': d.hex()})


def rfcomm_frame_oracle(t, cr, dlci, pf, info, credits):
    """construct -> bytes -> parse -> same fields and same bytes"""
    from bumble import rfcomm
    n = len(info) - (1 if credits else 0)
    sig = f'rfcomm:RFCOMM_Frame:len{n}' + ('+credits' if credits else '')
    ok, f = attempt(rfcomm.RFCOMM_Frame, rfcomm.FrameType(t), cr, dlci, pf, info, credits)
    if not ok:
        return None
    b = bytes(f)
    ok2, p = attempt(rfcomm.RFCOMM_Frame.from_bytes, b)
    name = rfcomm.FrameType(t).name
    if not ok2:
        return sig, f'{name} payload {n} octets: own bytes rejected ({p})'
    fl, inf = frame_fields(p)
    if (fl, inf) != ([t, cr, dlci, pf], info):
        return sig, f'{name} c/r={cr} dlci={dlci} p/f={pf} payload {n} octets parses back as {fl} with {len(inf)} octets'
    if bytes(p) != b:
        return sig, f'{name} p/f={pf} payload {n} octets: {b[:5].hex()}.. re-serialises as {bytes(p)[:5].hex()}..'
    return None



# ----------------------------------------------------------------------------- SDP data elements
# neutral trees: ('nil',) ('u', size, v) ('s', size, v) ('uuid', bytes_le) ('text', bytes) ('bool', b)
# ('seq', [..]) ('alt', [..]) ('url', str)
def sdp_build(t):
    from bumble import sdp, core
    DE = sdp.DataElement
    k = t[0]
    if k == 'nil':
        return DE.nil()
    if k == 'u':
        return DE.unsigned_integer(t[2], t[1])
    if k == 's':
        return DE.signed_integer(t[2], t[1])
    if k == 'uuid':
        u = core.UUID.__new__(core.UUID)        # a UUID value that does not go through the registry
        u.uuid_bytes = bytes(t[1])
        u.name = None
        return DE.uuid(u)
    if k == 'text':
        return DE.text_string(bytes(t[1]))
    if k == 'bool':
        return DE.boolean(t[1])
    if k == 'seq':
        return DE.sequence([sdp_build(x) for x in t[1]])
    if k == 'alt':
        return DE.alternative([sdp_build(x) for x in t[1]])
    if k == 'url':
        return DE.url(t[1])
    raise ValueError(k)


def sdp_term(t):
    k = t[0]
    if k == 'nil':
        return 'ENil'
    if k == 'u':
        return f'(EUInt {cz(t[1])} {cz(t[2])})'
    if k == 's':
        return f'(ESInt {cz(t[1])} {cz(t[2])})'
    if k == 'uuid':
        return f'(EUuid {cb(t[1])})'
    if k == 'text':
        return f'(EText {cb(t[1])})'
    if k == 'bool':
        return f'(EBool {cbool(t[1])})'
    if k in ('seq', 'alt'):
        return f'({"ESeq" if k == "seq" else "EAlt"} [' + '; '.join(sdp_term(x) for x in t[1]) + '])'
    if k == 'url':
        return f'(EUrl {cb(t[1].encode("utf8"))})'
    raise ValueError(k)


def sdp_sig_tree(t):
    k = t[0]
    if k == 'nil':
        return [0]
    if k == 'u':
        return [1, t[1], t[2]]
    if k == 's':
        return [2, t[1], t[2]]
    if k == 'uuid':
        return [3, len(t[1]), dgst(t[1])]
    if k == 'text':
        return [4, len(t[1]), dgst(t[1])]
    if k == 'bool':
        return [5, 1 if t[1] else 0]
    if k in ('seq', 'alt'):
        out = [6 if k == 'seq' else 7, len(t[1])]
        for x in t[1]:
            out += sdp_sig_tree(x)
        return out
    if k == 'url':
        b = t[1].encode('utf8')
        return [8, len(b), dgst(b)]
    raise ValueError(k)


def sdp_sig_elem(e):
    """signature of a real DataElement (same layout as Model.CodecsSdp.elem_sig)"""
    from bumble import sdp
    DE = sdp.DataElement
    ty = int(e.type)
    if ty == DE.NIL:
        return [0]
    if ty in (DE.UNSIGNED_INTEGER, DE.SIGNED_INTEGER):
        return [ty, e.value_size, int(e.value)]
    if ty == DE.UUID:
        b = bytes(e.value)
        return [3, len(b), dgst(b)]
    if ty == DE.TEXT_STRING:
        return [4, len(e.value), dgst(bytes(e.value))]
    if ty == DE.BOOLEAN:
        return [5, 1 if e.value else 0]
    if ty in (DE.SEQUENCE, DE.ALTERNATIVE):
        out = [ty, len(e.value)]
        for x in e.value:
            out += sdp_sig_elem(x)
        return out
    if ty == DE.URL:
        b = e.value.encode('utf8')
        return [8, len(b), dgst(b)]
    return [9, ty, len(e.value), dgst(bytes(e.value))]


def sdp_spec_encode(t):
    """Vol 3 Part B 3.2/3.3 data element encoding with the minimal size form, written
    independently of bumble (used to lay out received elements)"""
    k = t[0]
    def var(ty, data):
        n = len(data)
        if n <= 0xFF:
            return bytes([ty << 3 | 5, n]) + data
        if n <= 0xFFFF:
            return bytes([ty << 3 | 6]) + struct.pack('>H', n) + data
        return bytes([ty << 3 | 7]) + struct.pack('>I', n) + data
    if k == 'nil':
        return b'\x00'
    if k in ('u', 's'):
        idx = {1: 0, 2: 1, 4: 2, 8: 3}[t[1]]
        return bytes([(1 if k == 'u' else 2) << 3 | idx]) + int(t[2]).to_bytes(t[1], 'big', signed=(k == 's'))
    if k == 'uuid':
        idx = {2: 1, 4: 2, 16: 4}[len(t[1])]
        return bytes([3 << 3 | idx]) + bytes(t[1])[::-1]
    if k == 'text':
        return var(4, bytes(t[1]))
    if k == 'bool':
        return bytes([5 << 3, 1 if t[1] else 0])
    if k == 'seq':
        return var(6, b''.join(sdp_spec_encode(x) for x in t[1]))
    if k == 'alt':
        return var(7, b''.join(sdp_spec_encode(x) for x in t[1]))
    if k == 'url':
        return var(8, t[1].encode('utf8'))
    raise ValueError(k)


def sdp_fresh(e):
    """a copy of a parsed element without any _bytes cache (forces the serialiser to run)"""
    from bumble import sdp
    DE = sdp.DataElement
    if e.type in (DE.SEQUENCE, DE.ALTERNATIVE):
        return DE(e.type, [sdp_fresh(x) for x in e.value], e.value_size)
    return DE(e.type, e.value, e.value_size)


def sdp_first_diff(a, b, path='value'):
    """name of the first differing part of two real DataElements"""
    if int(a.type) != int(b.type):
        return path + '.type'
    if a.value_size != b.value_size:
        return path + '.value_size'
    from bumble import sdp
    if a.type in (sdp.DataElement.SEQUENCE, sdp.DataElement.ALTERNATIVE):
        if len(a.value) != len(b.value):
            return path + '.count'
        for i, (x, y) in enumerate(zip(a.value, b.value)):
            d = sdp_first_diff(x, y, f'{path}[{i}]')
            if d:
                return d
        return None
    if a.type == sdp.DataElement.UUID:
        return None if bytes(a.value) == bytes(b.value) else path + '.uuid-width'
    return None if a.value == b.value else path


SDP_TYPE_NAMES = {'nil': 'NIL', 'u': 'UNSIGNED_INTEGER', 's': 'SIGNED_INTEGER', 'uuid': 'UUID', 'text': 'TEXT_STRING',
                  'bool': 'BOOLEAN', 'seq': 'SEQUENCE', 'alt': 'ALTERNATIVE', 'url': 'URL'}


def sdp_gen_leaf(rng, big=False):
    k = rng.choice(['nil', 'u', 'u', 's', 's', 'uuid', 'text', 'bool', 'url'])
    if k == 'nil':
        return ('nil',)
    if k == 'u':
        sz = rng.choice([1, 2, 4, 8])
        return ('u', sz, rng.choice([0, 1, 255, 256, 256 ** sz - 1, 256 ** sz // 2, rng.below(256 ** sz)]) % 256 ** sz)
    if k == 's':
        sz = rng.choice([1, 2, 4, 8])
        h = 256 ** sz // 2
        return ('s', sz, rng.choice([0, 1, -1, h - 1, -h, rng.below(2 * h) - h]))
    if k == 'uuid':
        n = rng.choice([2, 2, 4, 16, 16])
        if n == 16 and rng.chance(1, 2):       # a 128-bit form of a 16-bit (possibly registered) UUID
            from bumble import core
            return ('uuid', bytes(core.UUID.BASE_UUID) + bytes([rng.choice([0x00, 0x01, 0x18, rng.below(256)]), rng.choice([0x11, 0x18, 0x28, rng.below(256)]), 0, 0]))
        return ('uuid', rng.bytes(n))
    if k == 'text':
        n = rng.choice([0, 1, 2, 17, 254, 255, 256, 257] if big else [0, 1, 2, 5, 17])
        return ('text', fill(rng, n))
    if k == 'bool':
        return ('bool', rng.chance(1, 2))
    n = rng.choice([0, 1, 20, 255, 256] if big else [0, 1, 9])
    alphabet = ['a', 'z', '/', ':', '.', 'é', '\u20ac', '\U0001F600']
    s_ = ''.join(rng.choice(alphabet) for _ in range(n))
    return ('url', s_)


def sdp_gen_tree(rng, depth, big=False):
    if depth <= 0 or rng.chance(2, 5):
        return sdp_gen_leaf(rng, big)
    k = rng.choice(['seq', 'seq', 'alt'])
    return (k, [sdp_gen_tree(rng, depth - 1, big) for _ in range(rng.choice([0, 1, 2, 2, 3, 5]))])


def sdp_value_oracle(tree):
    """construct -> bytes -> parse -> equal (dataclass equality and exact value identity),
    parse -> bytes -> same bytes.  Returns None or (signature, description)."""
    from bumble import sdp
    top = SDP_TYPE_NAMES[tree[0]]
    e = sdp_build(tree)
    ok, b = attempt(lambda: bytes(e))
    if not ok:
        return (f'sdp:DataElement.{top}:serialise', f'{top} does not serialise: {b}')
    size = len(b)
    ok, p = attempt(sdp.DataElement.from_bytes, b)
    if not ok:
        return (f'sdp:DataElement.{top}:size{size}', f'{top} of {size} octets is rejected by the parser: {p}')
    d = sdp_first_diff(p, e)
    if d or not (p == e):
        return (f'sdp:DataElement.{top}:{d or "eq"}', f'{top} ({size} octets) parses back different at {d}')
    if bytes(p) != b or bytes(sdp_fresh(p)) != b:
        return (f'sdp:DataElement.{top}:bytes', f'{top} ({size} octets) re-serialises differently')
    return None


def sec_sdp(ctx, B):
    from bumble import sdp
    rng = ctx.rng.fork('sdp')
    maxd = sdp._MAX_DATA_ELEMENT_NESTING
    trees = []
    # every type at its size boundaries
    for sz in (1, 2, 4, 8):
        for v in (0, 1, 256 ** sz - 1):
            trees.append(('u', sz, v))
        for v in (0, -1, 256 ** sz // 2 - 1, -(256 ** sz // 2)):
            trees.append(('s', sz, v))
    trees += [('nil',), ('bool', True), ('bool', False), ('uuid', bytes([0x34, 0x12])), ('uuid', bytes(range(4))),
              ('uuid', bytes(range(16)))]
    for n in (0, 1, 254, 255, 256, 257, 65535, 65536, 65537):
        trees.append(('text', fill(rng, n)))
        if n < 65535 or not ctx.quick():
            trees.append(('url', 'h' * n))
        if n >= 3 and (n < 65535 or not ctx.quick() or n == 65536):
            # a sequence whose body is exactly n octets: one text string filling it
            inner = n - 2 if n - 2 <= 255 else (n - 3 if n - 3 <= 65535 else n - 5)
            trees.append(('seq', [('text', fill(rng, inner))]))
            trees.append(('alt', [('text', fill(rng, inner))]))
    # nesting: chains of depth 1..maxd+1
    for d in (1, 2, 3, maxd - 1, maxd, maxd + 1):
        t = ('u', 1, 7)
        for i in range(d):
            t = ('seq' if i % 3 else 'alt', [t]) if i % 2 else ('seq', [t, ('nil',)])
        trees.append(t)
    # breadth: many empty (and shallow) containers at various positions, alone and mixed with real
    # nesting up to the limit - the nesting limit is about depth, never about how many containers
    # were met before (the parser's counter must be restored on every exit path)
    def chain(d, leaf=('u', 1, 7)):
        t = leaf
        for i in range(d):
            t = ('seq' if i % 2 else 'alt', [t])
        return t
    for n in (0, 1, 2, maxd - 1, maxd, maxd + 1, 40, 64):
        for kind in ('seq', 'alt'):
            trees.append(('seq', [(kind, []) for _ in range(n)]))
        trees.append(('seq', [('seq', []) for _ in range(n)] + [('seq', [('u', 1, 1)])]))
        trees.append(('alt', [('seq', [('bool', True)])] + [('alt', []) for _ in range(n)] + [('text', b'x')]))
    for n, d in ((20, maxd - 18), (maxd - 2, 1), (maxd - 1, 1), (10, maxd - 1), (40, maxd - 1), (3, maxd)):
        trees.append(('seq', [('alt', []) for _ in range(n)] + [chain(d - 1)]))
        trees.append(chain(d // 2, ('seq', [('seq', []) for _ in range(n)] + [chain(d - d // 2 - 1)])))
    for _ in range(ctx.n(12, 400)):
        n = rng.choice([0, 1, 5, maxd - 1, maxd, maxd + 1, rng.range(0, 64)])
        items = [(rng.choice(['seq', 'alt']), []) for _ in range(n)]
        for _ in range(rng.choice([0, 1, 2])):
            items.insert(rng.below(len(items) + 1), chain(rng.choice([0, 1, 2, maxd // 2, maxd - 1])))
        trees.append((rng.choice(['seq', 'alt']), items))
    for _ in range(ctx.n(110, 4000)):
        trees.append(sdp_gen_tree(rng, rng.choice([1, 2, 2, 3, 4]), big=rng.chance(1, 6)))
    for tree in trees:
        e = sdp_build(tree)
        ok, b = attempt(lambda: bytes(e))
        expect = (None, (0, [], 0, (0, 0), False))
        depth_ok = True
        if ok:
            okp, p = attempt(sdp.DataElement.from_bytes, b)
            if okp:
                expect = (some(dg(b)), (1, sdp_sig_elem(p), len(b), dg(bytes(p)), True))
            else:
                expect = (some(dg(b)), (0, [], 0, (0, 0), False))
                depth_ok = False
        bad = sdp_value_oracle(tree)
        nest = _tree_depth(tree)
        if bad and nest <= maxd:
            ctx.violation(bad[0], bad[1], {'kind': 'sdp-value', 'tree': _tree_json(tree)})
        ctx.case(('sdp', sdp_term(tree)[:4000]), tree[0] in ('seq', 'alt', 'text', 'url'),
                 {'codec': 'SDP DataElement', 'element': sdp_term(tree)[:200], 'octets': len(b) if ok else None} if len(ctx.samples) < 4 and tree[0] == 'seq' else None)
        ctx.count('sdp.value.' + SDP_TYPE_NAMES[tree[0]])
        ctx.count(f'sdp.value.nesting.{min(nest, maxd + 1) if nest > 4 else nest}')
        nempty = _tree_empties(tree)
        if nempty:
            ctx.count('sdp.value.empty-containers.' + ('1-4' if nempty < 5 else '5-31' if nempty < 32 else '32+'))
        if ok:
            ctx.count('sdp.value.size-form.' + ('8' if len(b) <= 257 else '16' if len(b) <= 65538 else '32') if tree[0] in ('text', 'url', 'seq', 'alt') else 'sdp.value.size-form.fixed')
        B.add(f'encode_sig {sdp_term(tree)} sdp_max_nesting', expect, 'SDP DataElement value', {'element': sdp_term(tree)[:300]})
    # received elements: laid out by the specification (minimal forms), then non-canonical,
    # truncated, over-long and random octets
    rx = []
    for tree in trees[:40] + [sdp_gen_tree(rng, 3) for _ in range(ctx.n(60, 1500))]:
        if _tree_depth(tree) > maxd:
            continue
        rx.append((sdp_spec_encode(tree) + rng.bytes(rng.choice([0, 0, 1, 3])), True))
    for _ in range(ctx.n(100, 4000)):
        tree = sdp_gen_tree(rng, 2)
        d = bytearray(sdp_spec_encode(tree))
        kind = rng.below(8)
        if kind == 0 and d:
            d = d[:rng.below(len(d))]
        elif kind == 1 and d:
            d[rng.below(len(d))] = rng.below(256)
        elif kind == 2:
            ty = rng.choice([0, 1, 2, 3, 4, 5, 6, 7, 8, 9, 31])
            d = bytearray([ty << 3 | rng.below(8)]) + rng.bytes(rng.choice([0, 1, 2, 4, 5, 9, 17]))
        elif kind == 3:
            # a non-minimal size form around a small body
            body = rng.bytes(rng.below(6))
            ty = rng.choice([4, 6, 7, 8, 1, 3, 5, 0])
            form = rng.choice([5, 6, 7])
            szb = {5: bytes([len(body)]), 6: struct.pack('>H', len(body)), 7: struct.pack('>I', len(body))}[form]
            d = bytearray([ty << 3 | form]) + szb + body
        elif kind == 4:
            d = bytearray(rng.bytes(rng.choice([0, 1, 2, 3, 6, 12])))
        rx.append((bytes(d), False))
    for d, spec_form in rx:
        try:
            parser = sdp.DataElementParser(d)
            p = parser.parse_next()
            ok = True
        except UnicodeDecodeError:
            ctx.count('sdp.bytes.url-not-utf8')      # outside the model (URL octets are modelled as valid UTF-8)
            continue
        except Exception as ex:  # noqa: BLE001
            ok, p = False, type(ex).__name__
        ctx.case(('sdp-rx', d), ok)
        ctx.count('sdp.bytes.' + ('accepted' if ok else 'rejected') + ('.spec-form' if spec_form else ''))
        expect = SKIP
        if ok:
            cached = bytes(p)
            exp_core = (1, sdp_sig_elem(p), parser.offset, dg(cached))
            fresh_ok, fresh = attempt(lambda: bytes(sdp_fresh(p)))
            if spec_form:
                top = p.type.name
                if cached != d[:len(cached)] or not fresh_ok or fresh != cached:
                    ctx.violation(f'sdp:DataElement.{top}:bytes', f'well-formed {top} element of {len(cached)} octets does not re-serialise identically',
                                  {'kind': 'sdp-rx', 'data': d.hex()})
        else:
            exp_core = (0, [], 0, (0, 0))

        def extra(m, exp_core=exp_core, ok=ok, p=p, d=d, spec_form=spec_form):
            if m[:len(norm(exp_core))] != norm(exp_core):
                ctx.disagree('SDP DataElementParser', {'data': d[:40].hex(), 'len': len(d)}, repr(m)[:400], repr(norm(exp_core))[:400])
                return
            canon = m[-1]
            if spec_form and ok and canon is not True:
                ctx.disagree('specification-form element not canonical for the model', {'data': d[:40].hex()}, canon, True)
            if ok and canon is True:
                f_ok, f = attempt(lambda: bytes(sdp_fresh(p)))
                if not f_ok or f != bytes(p):
                    ctx.disagree('canonical for the model but the uncached serialiser differs', {'data': d[:40].hex()}, True, False)
        B.add(f'presult_sig (from_bytes sdp_max_nesting {cb(d)})', SKIP, 'SDP parse', {'data': d[:40].hex()}, extra=extra)
        # the parser that carries the nesting counter: same result, and the counter left behind
        if ok:
            B.add(f'sresult_sig (sfrom_bytes false sdp_max_nesting {cb(d)})',
                  (1, sdp_sig_elem(p), parser.offset, dg(bytes(p)), int(parser.depth)),
                  'SDP parser nesting counter after the parse', {'data': d[:40].hex()})


def _tree_empties(t):
    if t[0] in ('seq', 'alt'):
        return (1 if not t[1] else 0) + sum(_tree_empties(x) for x in t[1])
    return 0


def _tree_depth(t):
    if t[0] in ('seq', 'alt'):
        return 1 + max([_tree_depth(x) for x in t[1]] + [0])
    return 0


def _tree_json(t):
    if t[0] in ('seq', 'alt'):
        return [t[0], [_tree_json(x) for x in t[1]]]
    if t[0] in ('uuid', 'text'):
        b = bytes(t[1])
        if len(b) > 64 and len(set(b[4:-4])) == 1:
            return [t[0], {'fill': b[4], 'len': len(b), 'head': b[:4].hex(), 'tail': b[-4:].hex()}]
        return [t[0], b.hex()]
    return list(t)


def _tree_unjson(j):
    if j[0] in ('seq', 'alt'):
        return (j[0], [_tree_unjson(x) for x in j[1]])
    if j[0] in ('uuid', 'text'):
        if isinstance(j[1], dict):
            return (j[0], bytes.fromhex(j[1]['head']) + bytes([j[1]['fill']]) * (j[1]['len'] - 8) + bytes.fromhex(j[1]['tail']))
        return (j[0], bytes.fromhex(j[1]))
    return tuple(j)


# ----------------------------------------------------------------------------- UUID (registry as state) and Address
def uuid_history_oracle(ops):
    """Run a history of registry-touching operations on the real class, then check for every
    operation: the returned UUID has exactly the bytes it was created from, and equals (==) a
    fresh UUID of those bytes.  ops: ['b', hex] from_bytes, ['16', v], ['32', v], ['s', str] UUID(str)
    (no registration), ['p', hex] parse_uuid at offset 0, ['p2', hex] parse_uuid_2.
    Returns (per-op result bytes or None, violation or None)."""
    from bumble import core
    U = core.UUID
    out = []
    bad = None
    for i, o in enumerate(ops):
        k = o[0]
        try:
            if k == 'b':
                want = bytes.fromhex(o[1])
                u = U.from_bytes(want)
            elif k == '16':
                want = struct.pack('<H', o[1])
                u = U.from_16_bits(o[1])
            elif k == '32':
                want = struct.pack('<I', o[1])
                u = U.from_32_bits(o[1])
            elif k == 'p':
                want = bytes.fromhex(o[1])
                u = U.parse_uuid(want, 0)[1]
            elif k == 'p2':
                want = bytes.fromhex(o[1])[:2]
                u = U.parse_uuid_2(bytes.fromhex(o[1]), 0)[1]
            else:
                u = U(o[1])
                want = bytes(u)
            got = bytes(u)
            out.append(got)
            if bad is None and got != want:
                bad = (f'core:UUID:width{len(want) * 8}-as-{len(got) * 8}',
                       f'operation {i} {o}: asked for the {len(want)}-octet UUID {want.hex()}, got an object of {len(got)} octets ({got.hex()})')
            elif bad is None and k != 's':
                fresh = U.__new__(U)
                fresh.uuid_bytes = want
                fresh.name = None
                if not (u == fresh):
                    bad = ('core:UUID:eq', f'operation {i} {o}: result {got.hex()} is not equal to the UUID asked for')
        except Exception as e:  # noqa: BLE001
            out.append(None)
            if k in ('b', 'p') and len(bytes.fromhex(o[1])) in (2, 4, 16) and bad is None:
                bad = ('core:UUID:raise', f'operation {i} {o} raised {type(e).__name__}')
    return out, bad


def sec_uuid(ctx, B):
    from bumble import core
    rng = ctx.rng.fork('uuid')
    U = core.UUID
    base = bytes(U.BASE_UUID)

    def form128(v, n):
        return base + (struct.pack('<H', v) + b'\0\0' if n == 2 else struct.pack('<I', v))
    known16 = [0x1800, 0x1801, 0x2800, 0x2803, 0x2902, 0x0001, 0x0003, 0x0100, 0x1101, 0x110A]
    for hnum in range(ctx.n(45, 1500)):
        ops = []
        vals16 = [rng.choice(known16 + [rng.below(65536)]) for _ in range(3)]
        vals32 = [rng.choice([0x12345678, rng.below(2 ** 32), vals16[0]]) for _ in range(2)]
        for _ in range(rng.choice([1, 2, 3, 5, 8])):
            r = rng.below(10)
            v = rng.choice(vals16)
            w = rng.choice(vals32)
            if r == 0:
                ops.append(['16', v])
            elif r == 1:
                ops.append(['32', w])
            elif r == 2:
                ops.append(['b', form128(v, 2).hex()])
            elif r == 3:
                ops.append(['b', form128(w, 4).hex()])
            elif r == 4:
                ops.append(['b', struct.pack('<H', v).hex()])
            elif r == 5:
                ops.append(['b', rng.bytes(rng.choice([16, 16, 4, 2])).hex()])
            elif r == 6:
                ops.append(['s', f'{v:04X}'])
            elif r == 7:
                ops.append(['p', rng.choice([form128(v, 2), struct.pack('<H', v), struct.pack('<I', w)]).hex()])
            elif r == 8:
                ops.append(['p2', (struct.pack('<H', v) + rng.bytes(rng.below(3))).hex()])
            else:
                ops.append(['b', rng.bytes(rng.choice([0, 1, 3, 5, 8, 15, 17])).hex()])
        n0 = len(U.UUIDS)
        reg0 = [bytes(u.uuid_bytes) for u in U.UUIDS]
        got, bad = uuid_history_oracle(ops)
        added = [bytes(u.uuid_bytes) for u in U.UUIDS[n0:]]
        ctx.case(('uuid', tuple(map(tuple, ops)), len(reg0)), any(o[0] == 'b' and len(o[1]) == 32 for o in ops),
                 {'codec': 'UUID with registry', 'history': ops, 'registry_size_before': n0} if len(ctx.samples) < 5 and len(ops) > 2 else None)
        ctx.count('uuid.histories')
        ctx.count('uuid.ops', len(ops))
        if bad:
            ctx.violation(bad[0], bad[1], {'kind': 'uuid-history', 'ops': ops, 'preregistered': [b.hex() for b in reg0 if len(b) <= 4][:0]})
        # the model: only the registry-touching operations, on the registry as it was
        mops = []
        expect = []
        for o, g in zip(ops, got):
            if o[0] == 's':
                continue
            if o[0] == 'b' or o[0] == 'p':
                mops.append(f'UFromBytes {cb(bytes.fromhex(o[1]))}')
            elif o[0] == 'p2':
                mops.append(f'UFromBytes {cb(bytes.fromhex(o[1])[:2])}')
            elif o[0] == '16':
                mops.append(f'UFrom16 {o[1]}')
            else:
                mops.append(f'UFrom32 {o[1]}')
            expect.append(some(list(g)) if g is not None else None)
        # The model gets the part of the registry that can matter to this history: the entries equal
        # (as bytes or as 128-bit UUIDs) to a UUID the history mentions, in registration order.
        # register() only ever compares the new UUID with the entries, so the rest is irrelevant.
        def to128(b):
            return base + b + b'\0\0' if len(b) == 2 else base + b if len(b) == 4 else b
        mentioned = set()
        for o in ops:
            if o[0] in ('b', 'p'):
                mentioned.add(bytes.fromhex(o[1]))
            elif o[0] == 'p2':
                mentioned.add(bytes.fromhex(o[1])[:2])
            elif o[0] == '16':
                mentioned.add(struct.pack('<H', o[1]))
            elif o[0] == '32':
                mentioned.add(struct.pack('<I', o[1]))
        m128 = {to128(b) for b in mentioned if len(b) in (2, 4, 16)}
        rel = [b for b in reg0 if b in mentioned or to128(b) in m128]
        regterm = '[' + '; '.join(cb(b) for b in rel) + ']'
        B.add(f'let r := uuid_trace {regterm} [' + '; '.join(mops) + f'] in (fst r, skipn {len(rel)} (snd r))',
              (expect, [list(b) for b in added]), 'UUID registry history', {'ops': ops})
    # value-level checks that do not depend on the registry: 128-bit expansion and the ATT form
    for _ in range(ctx.n(40, 600)):
        b = rng.bytes(rng.choice([2, 4, 16]))
        u = U.from_bytes(b)
        ctx.case(('uuid-forms', b), True)
        ctx.count('uuid.forms')
        B.add(f'(uuid_128 {cb(b)}, uuid_to_pdu_bytes {cb(b)}, uuid_eq (uuid_to_pdu_bytes {cb(b)}) {cb(b)})',
              (list(u.to_bytes(force_128=True)), list(u.to_pdu_bytes()), U.from_bytes(u.to_pdu_bytes()) == u),
              'UUID 128-bit / PDU forms', {'uuid': b.hex()})
        if len(bytes(u)) == len(b) and not (U.from_bytes(u.to_pdu_bytes()) == u):
            ctx.violation('core:UUID:pdu-form', f'UUID {b.hex()} sent in its ATT form does not compare equal', {'kind': 'uuid-pdu', 'uuid': b.hex()})


ADDR_TYPES = [0, 1, 2, 3, 0xFE, 0xFF]


def sec_address(ctx, B):
    from bumble import hci
    rng = ctx.rng.fork('address')
    A = hci.Address
    for _ in range(ctx.n(80, 1500)):
        b = rng.choice([bytes(6), b'\xff' * 6, bytes([1, 2, 3, 4, 5, 6]), rng.bytes(6), rng.bytes(6)])
        t = rng.choice(ADDR_TYPES)
        a = A(b, hci.AddressType(t))
        tail = rng.bytes(rng.below(3))
        # bytes form through the three parsers
        for pname, ptype in (('parse_address', 0), ('parse_random_address', 1)):
            off, p = getattr(A, pname)(bytes(a) + tail, 0)
            if bytes(p) != b or off != 6 or (p == a) != (a.is_public == (ptype == 0)):
                ctx.violation(f'hci:Address:{pname}', f'{b.hex()}/{t} through {pname} gives {bytes(p).hex()} type {int(p.address_type)}',
                              {'kind': 'address', 'bytes': b.hex(), 'type': t})
        off, p = A.parse_address_preceded_by_type(bytes([t]) + bytes(a) + tail, 1)
        if bytes(p) != b or int(p.address_type) != t or not (p == a):
            ctx.violation('hci:Address:parse_address_preceded_by_type', f'{b.hex()}/{t} parses back as {bytes(p).hex()}/{int(p.address_type)}',
                          {'kind': 'address', 'bytes': b.hex(), 'type': t})
        # string form
        s_ = a.to_string()
        ok, q = attempt(A, s_)
        if not ok or not (q == a) or bytes(q) != b:
            ctx.violation('hci:Address:string', f'{b.hex()}/{t} -> {s_!r} -> {q}', {'kind': 'address', 'bytes': b.hex(), 'type': t})
        ctx.case(('addr', b, t), True, {'codec': 'Address', 'bytes': b.hex(), 'type': t, 'string': s_} if len(ctx.samples) < 6 and t == 0 else None)
        ctx.count('address.value')
        B.add(f'(addr_parse {t} ({cb(b)} ++ {cb(tail)}), addr_to_string ({cb(b)}, {t}), addr_from_string (addr_to_string ({cb(b)}, {t})) 1)',
              (some(((list(b), t), list(tail))), [ord(c) for c in s_],
               some((list(bytes(q)), int(q.address_type))) if ok else None), 'Address bytes / string forms', {'bytes': b.hex(), 'type': t})
    # strings: accepted forms and rejects
    strs = ['00:11:22:33:44:55', 'aa:bb:cc:dd:ee:ff', 'AABBCCDDEEFF', 'AA:BB:CC:DD:EE:FF/P', 'aabbccddeeff/P', '', 'P', '/P',
            '00:11:22:33:44', '00:11:22:33:44:5G', '0:11:22:33:44:555', '001122334455667', '00:11:22:33:44:55:66', '00-11-22-33-44-55']
    hexd = '0123456789abcdefABCDEF'
    for _ in range(ctx.n(40, 800)):
        n = rng.choice([12, 12, 17, 17, 11, 13, 16, 18])
        if n == 17:
            s_ = ':'.join(rng.choice(hexd) + rng.choice(hexd) for _ in range(6))
        else:
            s_ = ''.join(rng.choice(hexd) for _ in range(n))
        if rng.chance(1, 4):
            s_ += '/P'
        if rng.chance(1, 8) and s_:
            i = rng.below(len(s_))
            s_ = s_[:i] + rng.choice([':', 'g', 'P', '/']) + s_[i + 1:]
        strs.append(s_)
    for s_ in strs:
        ok, q = attempt(A, s_)
        ctx.case(('addr-str', s_), ok)
        ctx.count('address.string.' + ('accepted' if ok else 'rejected'))
        if ok and not (A(q.to_string()) == q):
            ctx.violation('hci:Address:string', f'{s_!r} parses to {q!r} whose string form does not parse back equal',
                          {'kind': 'address-string', 'string': s_})
        B.add(f'addr_from_string {cb(s_.encode())} 1', some((list(bytes(q)), int(q.address_type))) if ok else None,
              'Address(string)', {'string': s_})
    for _ in range(ctx.n(20, 300)):
        d = rng.bytes(rng.choice([0, 5, 6, 7, 9]))
        ok, r = attempt(A.parse_address, d, 0)
        ctx.case(('addr-rx', d), ok)
        ctx.count('address.bytes')
        B.add(f'addr_parse 0 {cb(d)}', some(((list(bytes(r[1])), int(r[1].address_type)), list(d[r[0]:]))) if ok else None,
              'Address.parse_address', {'data': d.hex()})


# ----------------------------------------------------------------------------- advertising data
def sec_adv(ctx, B):
    from bumble import core
    rng = ctx.rng.fork('adv')
    AD = core.AdvertisingData
    for _ in range(ctx.n(80, 2000)):
        items = []
        for _ in range(rng.choice([0, 1, 1, 2, 3, 6])):
            items.append((rng.choice([0x01, 0x02, 0x03, 0x08, 0x09, 0x16, 0xFF, 0x00, rng.below(256)]),
                          fill(rng, rng.choice([0, 1, 2, 3, 16, 29, 253, 254, 255 if rng.chance(1, 6) else 7]))))
        ok, b = attempt(lambda: bytes(AD(items)))
        expect = None
        if ok:
            p = AD.from_bytes(b)
            got = [(int(t), bytes(v)) for t, v in p.ad_structures]
            expect = some((dg(b), [(t, dg(v)) for t, v in got]))
            if got != [(t, bytes(v)) for t, v in items]:
                i = next((k for k, (x, y) in enumerate(zip(got, items)) if x != (y[0], bytes(y[1]))), min(len(got), len(items)))
                ln = len(items[i][1]) if i < len(items) else -1
                ctx.violation(f'core:AdvertisingData:len{ln}', f'structures {[(t, len(v)) for t, v in items]} parse back as {[(t, len(v)) for t, v in got]}',
                              {'kind': 'adv', 'items': [[t, v.hex()] for t, v in items]})
            elif bytes(p) != b:
                ctx.violation('core:AdvertisingData:bytes', 'parsed advertising data re-serialises differently',
                              {'kind': 'adv', 'items': [[t, v.hex()] for t, v in items]})
        ctx.case(('adv', [(t, bytes(v)) for t, v in items]), len(items) > 1,
                 {'codec': 'AdvertisingData', 'structures': [[t, len(v)] for t, v in items]} if len(ctx.samples) < 7 and len(items) > 1 else None)
        ctx.count('adv.value')
        term = '[' + '; '.join(f'({t}, {cb(v)})' for t, v in items) + ']'
        B.add(f'match ad_bytes {term} with Some b => match ad_parse_all b with Some l => '
              f'Some (dg b, map (fun o => (fst o, dg (snd o))) l) | None => None end | None => None end',
              expect, 'AdvertisingData value', {'items': [[t, len(v)] for t, v in items]})
    for _ in range(ctx.n(80, 2000)):
        kind = rng.below(4)
        if kind == 0:
            d = rng.bytes(rng.choice([0, 1, 2, 3, 5, 9, 31]))
        else:
            d = b''
            for _ in range(rng.choice([1, 2, 3])):
                v = rng.bytes(rng.choice([0, 1, 4, 9]))
                d += bytes([len(v) + 1, rng.below(256)]) + v
            if kind == 2:
                d += bytes(rng.choice([1, 2, 5]))          # zero padding (early termination)
            if kind == 3:
                d = d[:rng.below(len(d) + 1)]
        p = AD.from_bytes(d)
        got = [(int(t), list(v)) for t, v in p.ad_structures]
        ctx.case(('adv-rx', d), len(got) > 0)
        ctx.count('adv.bytes')
        if kind == 1 and bytes(p) != d:
            ctx.violation('core:AdvertisingData:bytes', f'well-formed advertising data {d.hex()} re-serialises as {bytes(p).hex()}',
                          {'kind': 'adv-rx', 'data': d.hex()})
        B.add(f'(ad_parse_all {cb(d)}, ad_exact_all {cb(d)})', (some(got), SKIPV), 'AdvertisingData.from_bytes', {'data': d.hex()},
              extra=lambda m, p=p, d=d: (ctx.disagree('ad_exact but not byte-identical', {'data': d.hex()}, True, False)
                                         if m[-1] is True and bytes(p) != d else None))


# ----------------------------------------------------------------------------- AVDTP / AVCTP / RTP
class _Chan:
    """stands in for the L2CAP channel under Protocol.send_message: records what is written"""

    def __init__(self, mtu):
        self.peer_mtu = mtu
        self.written = []

    def write(self, pdu):
        self.written.append(bytes(pdu))


def avdtp_send(tl, message, mtu):
    """the real avdtp.Protocol.send_message on a stand-in channel -> list of PDUs"""
    from bumble import avdtp
    chan = _Chan(mtu)
    stub = types.SimpleNamespace(l2cap_channel=chan, PacketType=avdtp.Protocol.PacketType)
    avdtp.Protocol.send_message(stub, tl, message)
    return chan.written


def avdtp_receive(pdus):
    """the real avdtp.MessageAssembler -> list of (transaction_label, message)"""
    from bumble import avdtp
    got = []
    asm = avdtp.MessageAssembler(lambda tl, m: got.append((tl, m)))
    for p in pdus:
        asm.on_pdu(p)
    return got


def sec_av(ctx, B):
    from bumble import avdtp, avctp, rtp
    rng = ctx.rng.fork('av')
    # ---- AVDTP signalling header (generic Message with a raw payload: the header is what is tested)
    for _ in range(ctx.n(80, 1500)):
        tl = rng.below(16)
        mt = rng.choice([0, 1, 2])        # RESPONSE_REJECT without a registered class parses as Simple_Reject
        sig = rng.choice([0x00, 0x0E, 0x0F, 0x20, 0x3F, rng.below(64)])
        payload = fill(rng, rng.choice([0, 1, 2, 10, 45, 46, 47, 100]))
        msg = avdtp.Message()
        msg.message_type = avdtp.Message.MessageType(mt)
        msg.signal_identifier = avdtp.SignalIdentifier(sig)
        msg.payload = payload
        if sig in avdtp.Message.subclasses and mt in avdtp.Message.subclasses[sig]:
            continue                       # registered classes are exercised by sec_registries
        mtu = rng.choice([48, 48, 672, 1000])
        pdus = avdtp_send(tl, msg, mtu)
        got = avdtp_receive(pdus)
        single = len(payload) + 2 <= mtu
        ctx.case(('avdtp-hdr', tl, mt, sig, len(payload), mtu), True)
        ctx.count('avdtp.header.' + ('single' if single else 'fragmented'))
        if len(got) != 1 or got[0][0] != tl or int(got[0][1].message_type) != mt or int(got[0][1].signal_identifier) != sig \
                or bytes(got[0][1].payload) != payload:
            ctx.violation(f'avdtp:Message:header:{"single" if single else "fragmented"}',
                          f'tl={tl} type={mt} signal={sig} payload {len(payload)} octets over mtu {mtu}: received {[(t, int(m.message_type), int(m.signal_identifier), len(m.payload)) for t, m in got]}',
                          {'kind': 'avdtp-header', 'tl': tl, 'mt': mt, 'sig': sig, 'payload': payload.hex(), 'mtu': mtu})
        first = pdus[0]
        if single:
            B.add(f'(avdtp_single_bytes {tl} {mt} {sig} {cb(payload)}, avdtp_header_parse {cb(first)})',
                  (list(first), some(([tl, 0, mt, sig], list(payload)))), 'AVDTP single-packet header', {'tl': tl, 'mt': mt, 'sig': sig})
        else:
            count = first[2]
            frag = first[3:]
            B.add(f'(avdtp_start_bytes {tl} {mt} {sig} {count} {cb(frag)}, avdtp_header_parse {cb(first)})',
                  (list(first), some(([tl, 1, mt, sig, count], list(frag)))), 'AVDTP start-packet header', {'tl': tl, 'mt': mt, 'sig': sig})
    for _ in range(ctx.n(40, 800)):
        d = rng.bytes(rng.choice([0, 1, 2, 3, 4, 8]))
        if d and rng.chance(2, 3):
            d = bytes([d[0] & 0xF3]) + d[1:]      # single packet
        okr, got = attempt(avdtp_receive, [d])
        if not okr:
            # Message.create on a malformed payload raised (e.g. an empty RESPONSE_REJECT): the
            # header was read; hostile payloads are property C17's subject
            ctx.count('avdtp.header.bytes.payload-raises')
            continue
        ctx.case(('avdtp-rx', d), len(got) > 0)
        ctx.count('avdtp.header.bytes')
        pt = (d[0] >> 2) & 3 if d else None

        def extra(m, d=d, got=got, pt=pt):
            # model: header fields; implementation: a message is delivered exactly for single packets
            if pt == 0 and len(d) >= 2:
                want = some(([d[0] >> 4, 0, d[0] & 3, d[1] & 0x3F], list(d[2:])))
                if m != norm(want):
                    ctx.disagree('avdtp_header_parse', {'data': d.hex()}, repr(m), repr(norm(want)))
                if len(got) != 1 or got[0][0] != d[0] >> 4 or int(got[0][1].signal_identifier) != d[1] & 0x3F:
                    ctx.disagree('AVDTP assembler on a single packet', {'data': d.hex()}, repr(m), repr(got))
            elif (pt == 0 and len(d) < 2) or not d:
                if m is not None or got:
                    ctx.disagree('AVDTP short packet', {'data': d.hex()}, repr(m), repr(got))
        B.add(f'avdtp_header_parse {cb(d)}', SKIP, 'AVDTP header bytes', {'data': d.hex()}, extra=extra)
    # ---- EndPointInfo
    EP = avdtp.EndPointInfo
    for seid in (0, 1, 31, 62, 63):
        for in_use in (0, 1):
            for mt in (0, 1, 2, 3, 15):
                for tsep in (0, 1):
                    p = [seid, in_use, mt, tsep]
                    obj = EP(seid, in_use, avdtp.MediaType(mt), avdtp.StreamEndPointType(tsep))
                    b = bytes(obj)
                    q = EP.from_bytes(b)
                    got = [q.seid, q.in_use, int(q.media_type), int(q.tsep)]
                    ctx.case(('epi', tuple(p)), True)
                    ctx.count('avdtp.endpoint.value')
                    if got != p or not (q == obj):
                        ctx.violation('avdtp:EndPointInfo:' + ','.join(n for n, g, w in zip(['seid', 'in_use', 'media_type', 'tsep'], got, p) if g != w),
                                      f'EndPointInfo{tuple(p)} parses back as {got}', {'kind': 'epi', 'fields': p})
                    B.add(f'(epi_bytes {cb(p)}, epi_parse (epi_bytes {cb(p)}))', (list(b), some(got)), 'EndPointInfo', {'fields': p})
    for _ in range(ctx.n(40, 600)):
        d = rng.bytes(rng.choice([2, 2, 3, 1]))
        ok, q = attempt(EP.from_bytes, d)
        expect = some(([q.seid, q.in_use, int(q.media_type), int(q.tsep)], list(bytes(q)))) if ok else None
        if ok and len(d) == 2 and not d[0] & 1 and not d[1] & 7 and bytes(q) != d:
            ctx.violation('avdtp:EndPointInfo:bytes', f'{d.hex()} re-serialises as {bytes(q).hex()}', {'kind': 'epi-rx', 'data': d.hex()})
        ctx.case(('epi-rx', d), ok)
        ctx.count('avdtp.endpoint.bytes')
        B.add(f'match epi_parse {cb(d)} with Some p => Some (p, epi_bytes p) | None => None end', expect, 'EndPointInfo.from_bytes', {'data': d.hex()})
    # ---- service capabilities (strict TLV); the media codec category builds a2dp objects and is
    # exercised with well-formed codec information by sec_registries
    SC = avdtp.ServiceCapabilities
    for _ in range(ctx.n(60, 1000)):
        caps = []
        for _ in range(rng.choice([0, 1, 2, 3, 5])):
            caps.append((rng.choice([1, 2, 3, 4, 5, 6, 8, 9, 0, 255]), fill(rng, rng.choice([0, 0, 1, 2, 6, 255, 256 if rng.chance(1, 8) else 3]))))
        objs = [SC(c, v) for c, v in caps]
        ok, b = attempt(SC.serialize_capabilities, objs)
        expect = None
        if ok:
            dec = SC.parse_capabilities(b)
            got = [(int(x.service_category), bytes(x.service_capabilities_bytes)) for x in dec]
            expect = some((dg(b), [(c, dg(v)) for c, v in got]))
            if got != [(c, bytes(v)) for c, v in caps] or dec != objs:
                ctx.violation('avdtp:ServiceCapabilities:length', f'capabilities {[(c, len(v)) for c, v in caps]} parse back as {[(c, len(v)) for c, v in got]}',
                              {'kind': 'caps', 'caps': [[c, v.hex()] for c, v in caps]})
            elif SC.serialize_capabilities(dec) != b:
                ctx.violation('avdtp:ServiceCapabilities:bytes', 'parsed capabilities re-serialise differently',
                              {'kind': 'caps', 'caps': [[c, v.hex()] for c, v in caps]})
        ctx.case(('caps', [(c, bytes(v)) for c, v in caps]), len(caps) > 0)
        ctx.count('avdtp.capabilities.value')
        term = '[' + '; '.join(f'({c}, {cb(v)})' for c, v in caps) + ']'
        B.add(f'match tlv_encode {term} with Some b => match tlv_decode_all true b with '
              f'Some l => Some (dg b, map (fun o => (fst o, dg (snd o))) l) | None => None end | None => None end',
              expect, 'ServiceCapabilities', {'caps': [[c, len(v)] for c, v in caps]})
    for _ in range(ctx.n(40, 800)):
        d = b''
        for _ in range(rng.choice([0, 1, 2, 3])):
            v = rng.bytes(rng.choice([0, 1, 4]))
            d += bytes([rng.choice([1, 2, 3, 4, 5, 6, 8, 9]), len(v)]) + v
        kind = rng.below(4)
        if kind == 0 and d:
            d = d[:rng.below(len(d))]
        if kind == 1:
            d += bytes([rng.choice([1, 2, 8])])
        ok, dec = attempt(SC.parse_capabilities, d)
        ctx.case(('caps-rx', d), ok)
        ctx.count('avdtp.capabilities.bytes')
        if ok and kind >= 2 and SC.serialize_capabilities(dec) != d:
            ctx.violation('avdtp:ServiceCapabilities:bytes', f'well-formed capabilities {d.hex()} re-serialise differently', {'kind': 'caps-rx', 'data': d.hex()})
        B.add(f'tlv_decode_all true {cb(d)}',
              some([(int(x.service_category), list(x.service_capabilities_bytes)) for x in dec]) if ok else None,
              'ServiceCapabilities.parse_capabilities', {'data': d.hex()})
    # ---- AVCTP single-packet header through the real Protocol.send_message / MessageAssembler
    for _ in range(ctx.n(80, 1500)):
        tl = rng.below(16)
        is_cmd = rng.chance(1, 2)
        ipid = rng.chance(1, 4)
        pid = rng.choice([0x110E, 0x110C, 0, 0xFFFF, rng.below(65536)])
        payload = fill(rng, rng.choice([0, 1, 2, 10, 100, 600]))
        chan = _Chan(65535)
        stub = types.SimpleNamespace(l2cap_channel=chan)
        avctp.Protocol.send_message(stub, tl, is_cmd, ipid, pid, payload)
        pdu = chan.written[0]
        got = []
        avctp.MessageAssembler(lambda *a: got.append(a)).on_pdu(pdu)
        want = [(tl, is_cmd, ipid, pid, payload)]
        ctx.case(('avctp', tl, is_cmd, ipid, pid, len(payload)), True)
        ctx.count('avctp.header.value')
        if is_cmd and ipid:
            if got:
                ctx.disagree('AVCTP: IPID in a command frame must be dropped', {'tl': tl}, None, repr(got))
            expect = (some(dg(pdu)), some(None))
        else:
            if [(a, b_, c, d_, bytes(e)) for a, b_, c, d_, e in got] != want:
                ctx.violation('avctp:header:' + ('command' if is_cmd else 'response') + (':ipid' if ipid else ''),
                              f'tl={tl} is_command={is_cmd} ipid={ipid} pid={pid:#x} payload {len(payload)} octets delivered as {[(a, b_, c, d_, len(e)) for a, b_, c, d_, e in got]}',
                              {'kind': 'avctp', 'tl': tl, 'cmd': is_cmd, 'ipid': ipid, 'pid': pid, 'payload': payload.hex()})
            g = got[0] if got else None
            expect = (some(dg(pdu)), some(some((g[0], g[1], g[2], g[3], dg(g[4])))) if g else SKIPV)
        B.add(f'match avctp_bytes {tl} {cbool(is_cmd)} {cbool(ipid)} {pid} {cb(payload)} with Some b => '
              f'(Some (dg b), match avctp_parse b with Some (Some (t, c, i, p, pl)) => Some (Some (t, c, i, p, dg pl)) '
              f'| Some None => Some None | None => None end) | None => (None, None) end',
              expect, 'AVCTP single-packet header', {'tl': tl, 'cmd': is_cmd, 'ipid': ipid, 'pid': pid})
    # ---- RTP media packets
    MP = rtp.MediaPacket
    for _ in range(ctx.n(70, 2500)):
        cc = rng.choice([0, 0, 1, 2, 3, 15])
        f = dict(version=rng.choice([2, 2, 0, 3]), padding=rng.below(2), extension=rng.below(2), marker=rng.below(2),
                 sequence_number=rng.choice([0, 1, 65535, rng.below(65536)]),
                 timestamp=rng.choice([0, 1, 2 ** 32 - 1, rng.below(2 ** 32)]), ssrc=rng.choice([0, 2 ** 32 - 1, rng.below(2 ** 32)]),
                 csrc_list=[rng.choice([0, 2 ** 32 - 1, rng.below(2 ** 32)]) for _ in range(cc)],
                 payload_type=rng.choice([0, 96, 127, rng.below(128)]), payload=fill(rng, rng.choice([0, 1, 4, 100, 700])))
        obj = MP(**f)
        b = bytes(obj)
        ok, q = attempt(MP.from_bytes, b)
        names = ['version', 'padding', 'extension', 'marker', 'sequence_number', 'timestamp', 'ssrc', 'csrc_list', 'payload_type', 'payload']
        ctx.case(('rtp', tuple((k, tuple(v) if isinstance(v, list) else v) for k, v in f.items())), cc > 0,
                 {'codec': 'RTP MediaPacket', 'csrc_count': cc, 'payload_octets': len(f['payload'])} if len(ctx.samples) < 8 and cc > 1 else None)
        ctx.count(f'rtp.value.csrc{min(cc, 3)}')
        if not ok:
            ctx.violation(f'rtp:MediaPacket:csrc{cc}', f'own bytes rejected: {q}', {'kind': 'rtp', 'fields': {**f, 'payload': f['payload'].hex()}})
            continue
        diff = [n for n in names if getattr(q, n) != f[n]]
        if diff or bytes(q) != b:
            ctx.violation(f'rtp:MediaPacket:{",".join(diff) or "bytes"}:csrc{cc}',
                          f'packet with {cc} CSRC entries parses back with different {diff or "bytes"}: csrc {q.csrc_list} instead of {f["csrc_list"]}',
                          {'kind': 'rtp', 'fields': {**f, 'payload': f['payload'].hex()}})
        term = (f'{{| r_version := {f["version"]}; r_padding := {f["padding"]}; r_extension := {f["extension"]}; r_marker := {f["marker"]}; '
                f'r_seq := {f["sequence_number"]}; r_ts := {f["timestamp"]}; r_ssrc := {f["ssrc"]}; '
                f'r_csrc := [{"; ".join(map(str, f["csrc_list"]))}]; r_pt := {f["payload_type"]}; r_payload := {cb(f["payload"])} |}}')
        B.add(f'let p := {term} in (dg (rtp_bytes p), match rtp_parse (rtp_bytes p) with Some q => '
              f'Some (fst (fst (rtp_obs q)), snd (fst (rtp_obs q)), dg (r_payload q)) | None => None end)',
              (dg(b), some(([q.version, q.padding, q.extension, q.marker, q.sequence_number, q.timestamp, q.ssrc, q.payload_type],
                            list(q.csrc_list), dg(q.payload)))), 'RTP MediaPacket value', {'csrc': f['csrc_list']})
    for _ in range(ctx.n(60, 1500)):
        n = rng.choice([0, 5, 11, 12, 13, 16, 20, 24, 40])
        d = bytearray(rng.bytes(n))
        if n and rng.chance(3, 4):
            d[0] = (d[0] & 0xF0) | rng.choice([0, 0, 1, 2, 3])
        d = bytes(d)
        ok, q = attempt(MP.from_bytes, d)
        ctx.case(('rtp-rx', d), ok)
        ctx.count('rtp.bytes.' + ('accepted' if ok else 'rejected'))
        cc = d[0] & 15 if d else 0
        if len(d) >= 12 + 4 * cc and (not ok or bytes(q) != d):
            ctx.violation(f'rtp:MediaPacket:bytes:csrc{cc}', f'{d.hex()} ' + ('is rejected' if not ok else f're-serialises as {bytes(q).hex()}'),
                          {'kind': 'rtp-rx', 'data': d.hex()})
        expect = None
        if ok:
            expect = some(([q.version, q.padding, q.extension, q.marker, q.sequence_number, q.timestamp, q.ssrc, q.payload_type],
                           list(q.csrc_list), list(q.payload), list(bytes(q))))
        B.add(f'match rtp_parse {cb(d)} with Some q => Some (fst (fst (rtp_obs q)), snd (fst (rtp_obs q)), r_payload q, rtp_bytes q) | None => None end',
              expect, 'RTP MediaPacket.from_bytes', {'data': d.hex()})


# ----------------------------------------------------------------------------- every registered PDU class
def sec_registries(ctx, B):
    """EVERY registered PDU class of L2CAP signalling, ATT, SMP, SDP, AVDTP and AVRCP through the
    real classes on every run: construct -> bytes -> parse -> equal fields, parse -> bytes -> same
    bytes, parsed fields -> fresh object -> same bytes.  Classes whose field specs the generator
    does not know are listed in the evidence as uncovered."""
    from translate import c18_registries as R
    rng = ctx.rng.fork('registries')
    entries = R.registries()
    per_class = ctx.n(6, 120)
    covered, uncovered = {}, {}
    for e in entries:
        key = f'{e.proto}:{e.cls.__name__}'
        done = 0
        for k in range(per_class):
            try:
                kw = R.gen_kwargs(rng, e.cls.__name__, e.fields)
            except R.Unsupported as ex:
                uncovered[key] = str(ex)
                break
            if e.proto in ('l2cap', 'sdp'):
                kw['__id'] = rng.choice([0, 1, 255, 0xFFFF if e.proto == 'sdp' else 200])
            try:
                bad = R.roundtrip(e, kw)
            except R.Unsupported as ex:
                uncovered[key] = str(ex)
                break
            done += 1
            ctx.case((key, k, repr(sorted((n, str(R.canon(v))) for n, v in kw.items()))[:2000]), bool(e.fields))
            if bad:
                ctx.violation(bad[0], bad[1], {'kind': 'class', 'proto': e.proto, 'class': e.cls.__name__,
                                               'seed': ctx.seed, 'tier': ctx.tier, 'index': k})
        for wi, wire in enumerate(R.wire_cases(rng, e)):
            bad = R.wire_roundtrip(e, wire)
            ctx.case((key, 'wire', wire), True)
            ctx.count(f'registry.{e.proto}.wire-cases')
            if bad:
                ctx.violation(bad[0], bad[1], {'kind': 'class-wire', 'proto': e.proto, 'class': e.cls.__name__, 'data': wire.hex()})
        if done:
            covered[key] = done
            ctx.count(f'registry.{e.proto}.cases', done)
    ctx.extra['registry_classes_exercised'] = {p: sorted(k.split(':', 1)[1] for k in covered if k.startswith(p + ':'))
                                               for p in sorted({e.proto for e in entries})}
    ctx.extra['registry_classes_uncovered'] = uncovered
    for p in sorted({e.proto for e in entries}):
        ctx.count(f'registry.{p}.classes', sum(1 for k in covered if k.startswith(p + ':')))
    # ---- unknown codes must come back byte for byte (generic fallback objects)
    from bumble import l2cap, att, smp
    for _ in range(ctx.n(20, 300)):
        for proto, parse, reg in (('l2cap', l2cap.L2CAP_Control_Frame.from_bytes, l2cap.L2CAP_Control_Frame.classes),
                                  ('att', att.ATT_PDU.from_bytes, att.ATT_PDU.pdu_classes),
                                  ('smp', smp.SMP_Command.from_bytes, smp.SMP_Command.smp_classes)):
            code = rng.choice([c for c in range(256) if c not in {int(x) for x in reg}])
            body = rng.bytes(rng.choice([0, 1, 5]))
            d = bytes([code]) + (bytes([rng.below(256)]) + struct.pack('<H', len(body)) if proto == 'l2cap' else b'') + body
            ok, p = attempt(parse, d)
            ctx.case(('unknown', proto, d), True)
            ctx.count(f'registry.{proto}.unknown-code')
            if not ok or bytes(p) != d:
                ctx.violation(f'{proto}:{type(p).__name__ if ok else "parse"}:unknown-code',
                              f'{proto} PDU with unregistered code {code:#x}: {d.hex()} ' + (f'is rejected ({p})' if not ok else f're-serialises as {bytes(p).hex()}'),
                              {'kind': 'unknown-code', 'proto': proto, 'data': d.hex()})


# ----------------------------------------------------------------------------- translated classes vs the generic field codec
def sec_registry_model(ctx, B):
    """the classes of Gen/C18Registry.v (regenerated by this run): Model.CodecsRegistry.pdu_encode /
    pdu_decode over Model.SpecCodec against the real classes, on values and on truncated PDUs"""
    from translate import c18_registries as R
    rng = ctx.rng.fork('registry-model')
    _, translated, _ = R.translate()
    dflt = '(mkp 9 0 EmptyString [])'
    for idx, (e, aspecs) in enumerate(translated):
        proto = R.PROTO_CODE[e.proto]
        names = [f[0] for f in e.fields]
        for k in range(ctx.n(3, 40)):
            kw = R.gen_kwargs(rng, e.cls.__name__, e.fields)
            ident = rng.choice([0, 1, 255]) if proto == 0 else rng.choice([0, 1, 0xFFFF]) if proto == 3 else 0
            kw2 = dict(kw)
            if proto in (0, 3):
                kw2['__id'] = ident
            ok, obj = attempt(e.build, dict(kw2))
            okb, b = attempt(lambda: bytes(obj)) if ok else (False, None)
            vs = '[' + '; '.join(R.coq_value(kw[n]) for n in names) + ']'
            expect = (None, None)
            if ok and okb:
                okp, p = attempt(e.parse, b)
                if okp and type(p) is e.cls:
                    pid = int(p.identifier) if proto == 0 else int(p.transaction_id) if proto == 3 else 0
                    expect = (some(list(b)), some((e.code, pid, [R.py_value(getattr(p, n)) for n in names])))
                else:
                    expect = (some(list(b)), None)
            ctx.case(('regmodel', e.cls.__name__, k, vs[:1500]), bool(names))
            ctx.count(f'registry-model.{e.proto}.value')
            B.add(f'let c := nth {idx} C18Registry.classes {dflt} in match pdu_encode c {ident} {vs} with '
                  f'Some b => (Some b, match pdu_decode C18Registry.classes {proto} b with Some (c2, i, vs2) => Some (p_code c2, i, vs2) | None => None end) '
                  f'| None => (None, None) end', expect, 'field-driven class value', {'class': e.cls.__name__, 'fields': {n: str(R.canon(kw[n]))[:80] for n in names}})
            # the same PDU cut short: accept / reject decision and the values of the lenient parse
            if ok and okb and len(b) > 1 and k % 2 == 0:
                d = b[:rng.below(len(b))]
                okp, p = attempt(e.parse, d)
                exp2 = None
                if okp and type(p) is e.cls:
                    pid = int(p.identifier) if proto == 0 else int(p.transaction_id) if proto == 3 else 0
                    try:
                        exp2 = some((e.code, pid, [R.py_value(getattr(p, n)) for n in names]))
                    except R.Unsupported:
                        exp2 = SKIP
                ctx.case(('regmodel-rx', e.cls.__name__, d), okp)
                ctx.count(f'registry-model.{e.proto}.truncated')
                B.add(f'match pdu_decode C18Registry.classes {proto} {cb(d)} with Some (c2, i, vs2) => Some (p_code c2, i, vs2) | None => None end',
                      exp2, 'field-driven class truncated PDU', {'class': e.cls.__name__, 'data': d.hex()})


# ----------------------------------------------------------------------------- every field-driven class vs the extended field codec
HDR_LEN = {'l2cap': 4, 'att': 1, 'smp': 1, 'sdp': 5, 'avdtp': 0}


def sec_xregistry_model(ctx, B):
    """the classes of Gen/C18XRegistry.v (all five field-driven registries, custom field parsers
    included): Model.CodecsXfields.xserialize / xparse against the real classes, on values and on
    truncated payloads"""
    from translate import c18_registries as R
    rng = ctx.rng.fork('xregistry-model')
    _, xclasses = R.translate_x()
    dflt = '(mkx 9 0 EmptyString [])'
    for idx, (e, xs) in enumerate(xclasses):
        names = [f[0] for f in e.fields]
        custom = any(x[0] != 'XA' for x in xs)
        hl = HDR_LEN[e.proto]
        for k in range(ctx.n(3 if custom else 1, 60 if custom else 20)):
            kw = R.gen_kwargs(rng, e.cls.__name__, e.fields)
            ok, obj = attempt(e.build, dict(kw))
            okb, b = attempt(lambda: R.payload_bytes(e, obj)) if ok else (False, None)
            try:
                terms = [R.x_value(x, kw[n]) for x, n in zip(xs, names)]
            except R.Unsupported:
                ctx.count('xregistry-model.unsupported-value')
                continue
            vs = '[' + '; '.join(t[0] for t in terms) + ']'
            expect = None
            if ok and okb:
                payload = b[hl:]
                prev0 = b[hl - 1] if hl else 0
                okp, p = attempt(e.parse, b)
                got = None
                if okp and type(p) is e.cls:
                    try:
                        got = some([R.x_value(x, getattr(p, n))[1] for x, n in zip(xs, names)])
                    except R.Unsupported:
                        got = SKIPV
                expect = some((list(payload), got))
            else:
                prev0 = 0
            ctx.case(('xmodel', e.cls.__name__, k, vs[:1500]), custom)
            ctx.count(f'xregistry-model.{e.proto}.value')
            B.add(f'let c := nth {idx} C18XRegistry.xclasses {dflt} in match xserialize (x_fields c) {vs} with '
                  f'Some b => Some (b, match xparse (x_fields c) {prev0} b with Some (vs2, _) => Some vs2 | None => None end) '
                  f'| None => None end', expect, 'field-driven class (extended codec) value', {'class': e.cls.__name__})
            if ok and okb and custom and len(b) > hl and k % 2 == 0:
                d = b[:hl + rng.below(len(b) - hl)]
                okp, p = attempt(e.parse, d)
                exp2 = None
                if okp and type(p) is e.cls:
                    try:
                        exp2 = some([R.x_value(x, getattr(p, n))[1] for x, n in zip(xs, names)])
                    except R.Unsupported:
                        exp2 = SKIP
                ctx.case(('xmodel-rx', e.cls.__name__, d), okp)
                ctx.count(f'xregistry-model.{e.proto}.truncated')
                has_caps = any(x[0] == 'XCaps' for x in xs)

                has_cids = any(x[0] == 'XU16Lenient' for x in xs)

                def extra(m, exp2=exp2, has_caps=has_caps, has_cids=has_cids, name=e.cls.__name__, d=d):
                    if exp2 is SKIP or m == norm(exp2):
                        return
                    # a truncated MEDIA_CODEC capability (category 7) is parsed further by
                    # MediaCodecCapabilities.from_bytes / a2dp, which may raise: outside the TLV model
                    if has_caps and exp2 is None and '(\'VInt\', 7)' in repr(m):
                        ctx.count('xregistry-model.truncated-media-codec-capability')
                        return
                    # parse_cid_list raises when an earlier lenient field already stepped beyond the end of
                    # the data (struct.unpack_from with offset > len); the model only sees "nothing left"
                    if has_cids and exp2 is None:
                        ctx.count('xregistry-model.truncated-before-cid-list')
                        return
                    ctx.disagree('field-driven class (extended codec) truncated payload', {'class': name, 'data': d.hex()},
                                 repr(m)[:400], repr(norm(exp2))[:400])
                B.add(f'let c := nth {idx} C18XRegistry.xclasses {dflt} in match xparse (x_fields c) {prev0} {cb(d[hl:])} with '
                      f'Some (vs2, _) => Some vs2 | None => None end', SKIP, 'field-driven class (extended codec) truncated payload',
                      {'class': e.cls.__name__, 'data': d.hex()}, extra=extra)


# ----------------------------------------------------------------------------- AVRCP PDU classes vs the extended field codec
def sec_avrcp_model(ctx, B):
    """the classes of Gen/C18AvrcpRegistry.v: xfserialize / xfparse (array groups, strings, 64-bit
    identifiers) against the real avrcp Command / Response / Event classes"""
    from translate import c18_registries as R, c18_avrcp as A
    rng = ctx.rng.fork('avrcp-model')
    _, translated, _ = A.translate()
    dflt = '(mkxf 9 0 EmptyString [])'
    for idx, (e, fields) in enumerate(translated):
        hl = 1 if e.proto == 'avrcp.event' else 0
        for k in range(ctx.n(2, 40)):
            kw = R.gen_kwargs(rng, e.cls.__name__, e.fields)
            ok, obj = attempt(e.build, dict(kw))
            okb, b = attempt(lambda: bytes(obj)) if ok else (False, None)
            try:
                vs, _ = A.fields_value(fields, lambda n: kw[n])
            except R.Unsupported:
                ctx.count('avrcp-model.unsupported-value')
                continue
            expect = None
            prev0 = 0
            if ok and okb:
                prev0 = b[hl - 1] if hl else 0
                okp, p = attempt(e.parse, b)
                got = None
                if okp and type(p) is e.cls:
                    got = some(A.fields_value(fields, lambda n: getattr(p, n))[1])
                expect = some((list(b[hl:]), got))
            ctx.case(('avrcp-model', e.cls.__name__, k, vs[:1500]), bool(fields))
            ctx.count(f'avrcp-model.{e.proto}.value')
            B.add(f'let c := nth {idx} C18AvrcpRegistry.avrcp_classes {dflt} in match xfserialize (xf_fields c) {vs} with '
                  f'Some b => Some (b, match xfparse (xf_fields c) {prev0} b with Some (vs2, _) => Some vs2 | None => None end) '
                  f'| None => None end', expect, 'AVRCP class (extended codec) value', {'class': e.cls.__name__})


# ----------------------------------------------------------------------------- A2DP codec information (model)
SBC_F = ['sampling_frequency', 'channel_mode', 'block_length', 'subbands', 'allocation_method',
         'minimum_bitpool_value', 'maximum_bitpool_value']
AAC_F = ['object_type', 'sampling_frequency', 'channels', 'vbr', 'bitrate']


def sec_a2dp(ctx, B):
    from bumble import a2dp
    rng = ctx.rng.fork('a2dp')
    S, A = a2dp.SbcMediaCodecInformation, a2dp.AacMediaCodecInformation
    for _ in range(ctx.n(50, 1500)):
        p = [rng.below(16), rng.below(16), rng.below(16), rng.below(4), rng.below(4), rng.choice([0, 2, 255, rng.below(256)]),
             rng.choice([0, 53, 255, rng.below(256)])]
        obj = S(S.SamplingFrequency(p[0]), S.ChannelMode(p[1]), S.BlockLength(p[2]), S.Subbands(p[3]), S.AllocationMethod(p[4]), p[5], p[6])
        b = bytes(obj)
        q = S.from_bytes(b + rng.bytes(rng.below(2)))
        got = [int(getattr(q, n)) for n in SBC_F]
        ctx.case(('sbc', tuple(p)), True)
        ctx.count('a2dp.sbc.value')
        if got != p or not (q == obj) or bytes(q) != b:
            ctx.violation('a2dp:SbcMediaCodecInformation:' + (','.join(n for n, g, w in zip(SBC_F, got, p) if g != w) or 'bytes'),
                          f'SBC{tuple(p)} -> {b.hex()} -> {got}', {'kind': 'sbc', 'fields': p})
        B.add(f'(sbc_bytes {cb(p)}, sbc_parse (sbc_bytes {cb(p)}))', (list(b), some(got)), 'SbcMediaCodecInformation', {'fields': p})
    for _ in range(ctx.n(40, 1000)):
        d = rng.bytes(rng.choice([4, 4, 4, 5, 3, 0]))
        ok, q = attempt(S.from_bytes, d)
        expect = some(([int(getattr(q, n)) for n in SBC_F], list(bytes(q)))) if ok else None
        if ok and bytes(q) != d[:4]:
            ctx.violation('a2dp:SbcMediaCodecInformation:bytes', f'{d.hex()} re-serialises as {bytes(q).hex()}', {'kind': 'sbc-rx', 'data': d.hex()})
        ctx.case(('sbc-rx', d), ok)
        ctx.count('a2dp.sbc.bytes')
        B.add(f'match sbc_parse {cb(d)} with Some p => Some (p, sbc_bytes p) | None => None end', expect, 'SbcMediaCodecInformation.from_bytes', {'data': d.hex()})
    for _ in range(ctx.n(50, 1500)):
        p = [rng.choice([0x80, 0x40, 0xF0, rng.below(256)]), rng.choice([1, 16, 0xFFF, 0x800, rng.below(4096)]), rng.below(4), rng.below(2),
             rng.choice([0, 1, 255, 256, 65535, 65536, 2 ** 23 - 1, rng.below(2 ** 23)])]
        obj = A(A.ObjectType(p[0]), A.SamplingFrequency(p[1]), A.Channels(p[2]), p[3], p[4])
        b = bytes(obj)
        q = A.from_bytes(b + rng.bytes(rng.below(2)))
        got = [int(getattr(q, n)) for n in AAC_F]
        ctx.case(('aac', tuple(p)), p[4] > 65535)
        ctx.count('a2dp.aac.value')
        if got != p or not (q == obj) or bytes(q) != b:
            ctx.violation('a2dp:AacMediaCodecInformation:' + (','.join(n for n, g, w in zip(AAC_F, got, p) if g != w) or 'bytes'),
                          f'AAC{tuple(p)} -> {b.hex()} -> {got}', {'kind': 'aac', 'fields': p})
        pl = '[' + '; '.join(map(str, p)) + ']'
        B.add(f'(aac_bytes {pl}, aac_parse (aac_bytes {pl}))', (list(b), some(got)), 'AacMediaCodecInformation', {'fields': p})
    for _ in range(ctx.n(40, 1000)):
        d = rng.bytes(rng.choice([6, 6, 6, 7, 5, 0]))
        if len(d) >= 3 and rng.chance(2, 3):
            d = d[:2] + bytes([d[2] & 0xFC]) + d[3:]
        ok, q = attempt(A.from_bytes, d)
        expect = some(([int(getattr(q, n)) for n in AAC_F], list(bytes(q)))) if ok else None
        if ok and not d[2] & 3 and bytes(q) != d[:6]:
            ctx.violation('a2dp:AacMediaCodecInformation:bytes', f'{d.hex()} re-serialises as {bytes(q).hex()}', {'kind': 'aac-rx', 'data': d.hex()})
        ctx.case(('aac-rx', d), ok)
        ctx.count('a2dp.aac.bytes')
        B.add(f'match aac_parse {cb(d)} with Some p => Some (p, aac_bytes p) | None => None end', expect, 'AacMediaCodecInformation.from_bytes', {'data': d.hex()})


# ----------------------------------------------------------------------------- parse-driven oracle (no model)
def _same_value(a, b):
    """equality of two parsed objects: the class's own __eq__ when it defines one, else the
    canonical form of its dataclass fields / attributes"""
    from translate import c18_registries as R
    if type(a) is not type(b):
        return False
    if type(a).__eq__ is not object.__eq__:
        return a == b
    try:
        return R.canon(a) == R.canon(b)
    except R.Unsupported:
        return True         # no comparable form: the byte-level checks of the caller still apply


def parse_driven(parse, data, exact_length):
    """v0 = parse(data); b1 = bytes(v0); v1 = parse(b1); b2 = bytes(v1).
    With a seed of the class's exact length (a well-formed unit up to reserved bits):
    v1 must equal v0 (value -> bytes -> value) and b2 == b1 (bytes -> value -> bytes).
    With a seed of unknown well-formedness nothing can be demanded unless the codec itself treats
    it as canonical (b1 == data): then v1 must equal v0 and b2 == data, whatever was parsed before.
    Returns ('skip' | 'ok' | 'bad', description)."""
    ok, v0 = attempt(parse, data)
    if not ok:
        return 'skip', None
    ok, b1 = attempt(lambda: bytes(v0))
    if not ok:
        return ('bad', f'{data.hex()} parses but the value does not serialise ({b1})') if exact_length else ('skip', None)
    if not exact_length and b1 != data:
        return 'skip', None
    ok, v1 = attempt(parse, b1)
    if not ok:
        return 'bad', f'serialiser output {b1.hex()} (from {data.hex()}) is rejected by the parser ({v1})'
    if not _same_value(v0, v1):
        return 'bad', f'{data.hex()} -> {v0!r:.80} -> {b1.hex()} -> a different value {v1!r:.80}'
    ok, b2 = attempt(lambda: bytes(v1))
    if not ok or b2 != b1:
        return 'bad', f'{b1.hex()} parses to a value that serialises as {b2.hex() if ok else b2}'
    return 'ok', None


def avc_value_oracle(kind, args):
    """construct -> bytes -> Frame.from_bytes -> same class, same attributes, same bytes"""
    from bumble import avc
    F = avc.Frame
    if kind == 'pt-cmd':
        obj = avc.PassThroughCommandFrame(avc.CommandFrame.CommandType(args[0]), F.SubunitType(args[1]), args[2],
                                          avc.PassThroughFrame.StateFlag(args[3]), avc.PassThroughFrame.OperationId(args[4]), bytes.fromhex(args[5]))
        attrs = ['ctype', 'subunit_type', 'subunit_id', 'state_flag', 'operation_id', 'operation_data']
    elif kind == 'pt-rsp':
        obj = avc.PassThroughResponseFrame(avc.ResponseFrame.ResponseCode(args[0]), F.SubunitType(args[1]), args[2],
                                           avc.PassThroughFrame.StateFlag(args[3]), avc.PassThroughFrame.OperationId(args[4]), bytes.fromhex(args[5]))
        attrs = ['response', 'subunit_type', 'subunit_id', 'state_flag', 'operation_id', 'operation_data']
    elif kind == 'vd-cmd':
        obj = avc.VendorDependentCommandFrame(avc.CommandFrame.CommandType(args[0]), F.SubunitType(args[1]), args[2], args[3], bytes.fromhex(args[4]))
        attrs = ['ctype', 'subunit_type', 'subunit_id', 'company_id', 'vendor_dependent_data']
    elif kind == 'vd-rsp':
        obj = avc.VendorDependentResponseFrame(avc.ResponseFrame.ResponseCode(args[0]), F.SubunitType(args[1]), args[2], args[3], bytes.fromhex(args[4]))
        attrs = ['response', 'subunit_type', 'subunit_id', 'company_id', 'vendor_dependent_data']
    elif kind == 'cmd':
        obj = avc.CommandFrame(avc.CommandFrame.CommandType(args[0]), F.SubunitType(args[1]), args[2], F.OperationCode(args[3]), bytes.fromhex(args[4]))
        attrs = ['ctype', 'subunit_type', 'subunit_id', 'opcode', 'operands']
    else:
        obj = avc.ResponseFrame(avc.ResponseFrame.ResponseCode(args[0]), F.SubunitType(args[1]), args[2], F.OperationCode(args[3]), bytes.fromhex(args[4]))
        attrs = ['response', 'subunit_type', 'subunit_id', 'opcode', 'operands']
    name = type(obj).__name__
    b = bytes(obj)
    ok, p = attempt(F.from_bytes, b)
    if not ok:
        return (f'avc:{name}:parse', f'{name}{tuple(args)} -> {b.hex()} is rejected: {p}')
    if type(p) is not type(obj):
        return (f'avc:{name}:class', f'{name} -> {b.hex()} parses back as {type(p).__name__}')
    for a_ in attrs:
        g, w = getattr(p, a_), getattr(obj, a_)
        if (bytes(g) if isinstance(g, (bytes, bytearray)) else int(g)) != (bytes(w) if isinstance(w, (bytes, bytearray)) else int(w)):
            return (f'avc:{name}:{a_}', f'{name}{tuple(args)} -> {b.hex()} -> {a_} = {g!r} instead of {w!r}')
    if bytes(p) != b:
        return (f'avc:{name}:bytes', f'{name} {b.hex()} re-serialises as {bytes(p).hex()}')
    return None


def sec_parse_driven(ctx, B):
    """AVC frames, A2DP codec information, typed advertising-data structures: oracle only.
    The classes are enumerated from the modules themselves on every run."""
    from bumble import avc, a2dp, core, data_types
    import inspect
    rng = ctx.rng.fork('parse-driven')
    targets = []
    for name, cls in sorted(inspect.getmembers(data_types, inspect.isclass)):
        if cls.__module__ == data_types.__name__ and issubclass(cls, core.DataType) and 'from_bytes' in vars(cls) or \
                (cls.__module__ == data_types.__name__ and issubclass(cls, core.DataType) and getattr(cls, 'ad_type', None) is not None):
            if getattr(cls, 'ad_type', None) is None:
                continue
            targets.append(('data_types', name, cls.from_bytes, [0, 1, 2, 3, 4, 5, 6, 7, 8, 9, 16, 17, 18, 20, 32], False))
    for name, n in (('SbcMediaCodecInformation', 4), ('AacMediaCodecInformation', 6)):
        cls = getattr(a2dp, name, None)
        if cls is not None:
            targets.append(('a2dp', name, cls.from_bytes, [n], True))
    targets.append(('a2dp', 'VendorSpecificMediaCodecInformation', a2dp.VendorSpecificMediaCodecInformation.from_bytes, [6, 7, 10], True))
    for ct, lens in ((int(a2dp.CodecType.SBC), [4]), (int(a2dp.CodecType.MPEG_2_4_AAC), [6]), (int(a2dp.CodecType.NON_A2DP), [7, 8, 10])):
        targets.append(('a2dp', f'MediaCodecInformation.create[{ct}]',
                        lambda d, ct=ct: a2dp.MediaCodecInformation.create(a2dp.CodecType(ct), d), lens, True))
    targets.append(('a2dp', 'MediaCodecInformation.create[Opus]',
                    lambda d: a2dp.MediaCodecInformation.create(a2dp.CodecType.NON_A2DP, d), [1], True))
    exercised, never_accepted = {}, []
    for proto, name, parse, lens, exact in targets:
        accepted = 0
        for k in range(ctx.n(16, 300)):
            d = rng.bytes(rng.choice(lens))
            if name.endswith('[Opus]'):
                d = struct.pack('<IH', 0xE0, 1) + d        # vendor id, codec id, one octet of value
            verdict, why = parse_driven(parse, d, exact)
            if verdict == 'skip':
                continue
            accepted += 1
            ctx.case((proto, name, d), True)
            if verdict == 'bad':
                ctx.violation(f'{proto}:{name}:roundtrip', why, {'kind': 'parse-driven', 'proto': proto, 'class': name, 'data': d.hex()})
        if accepted:
            exercised[f'{proto}:{name}'] = accepted
            ctx.count(f'oracle-only.{proto}.cases', accepted)
        else:
            never_accepted.append(f'{proto}:{name}')
    # AVC frames: the concrete classes, by value
    from bumble import avc as _avc
    accepted = 0
    ops = [int(m) for m in _avc.PassThroughFrame.OperationId][:6] + [0x7E]
    subunits = [int(m) for m in _avc.Frame.SubunitType if m != _avc.Frame.SubunitType.EXTENDED]
    for k in range(ctx.n(120, 3000)):
        kind = rng.choice(['pt-cmd', 'pt-rsp', 'vd-cmd', 'vd-rsp', 'cmd', 'rsp'])
        code = rng.choice([0, 1, 2, 3, 4]) if kind.endswith('cmd') else rng.choice([8, 9, 0xA, 0xB, 0xC, 0xD, 0xF])
        st, sid = rng.choice(subunits), rng.choice([0, 1, 4, 7])
        if kind.startswith('pt'):
            args = [code, st, sid, rng.below(2), rng.choice(ops), rng.bytes(rng.choice([0, 0, 1, 2, 5, 255])).hex()]
        elif kind.startswith('vd'):
            args = [code, st, sid, rng.choice([0x001958, 0, 0xFFFFFF, rng.below(1 << 24)]), rng.bytes(rng.choice([0, 1, 4, 20, 300])).hex()]
        else:
            args = [code, st, sid, rng.choice([0x30, 0x31, 0x02]), rng.bytes(rng.choice([0, 1, 5])).hex()]
        bad = avc_value_oracle(kind, args)
        accepted += 1
        ctx.case(('avc', kind, tuple(args)), True)
        if bad:
            ctx.violation(bad[0], bad[1], {'kind': 'avc', 'frame': kind, 'args': args})
    exercised['avc:Frame'] = accepted
    ctx.count('oracle-only.avc.cases', accepted)
    ctx.extra['oracle_only_classes'] = exercised
    ctx.extra['oracle_only_never_accepted'] = never_accepted


# ----------------------------------------------------------------------------- histories: parse, mutate the result, parse again
def history_parsers():
    """name -> parse(bytes) for every parser entry point covered by this check (the registry classes
    through their protocol's from_bytes / create; the hand-modelled and oracle-only codecs directly)"""
    from translate import c18_registries as R
    from bumble import l2cap, sdp, rfcomm, core, hci, avdtp, avc, rtp, a2dp, data_types
    import inspect
    out = {}
    for e in R.registries():
        out[f'class:{e.proto}:{e.cls.__name__}'] = e.parse
    out['core:AdvertisingData.from_bytes'] = core.AdvertisingData.from_bytes
    out['core:UUID.from_bytes'] = core.UUID.from_bytes
    out['l2cap:EnhancedControlField.from_bytes'] = l2cap.EnhancedControlField.from_bytes
    out['l2cap:L2CAP_PDU.from_bytes'] = l2cap.L2CAP_PDU.from_bytes
    out['l2cap:L2CAP_Control_Frame.from_bytes'] = l2cap.L2CAP_Control_Frame.from_bytes
    out['l2cap:L2CAP_Control_Frame.decode_configuration_options'] = l2cap.L2CAP_Control_Frame.decode_configuration_options
    out['sdp:DataElement.from_bytes'] = sdp.DataElement.from_bytes
    out['rfcomm:RFCOMM_Frame.from_bytes'] = rfcomm.RFCOMM_Frame.from_bytes
    out['rfcomm:RFCOMM_MCC_PN.from_bytes'] = rfcomm.RFCOMM_MCC_PN.from_bytes
    out['rfcomm:RFCOMM_MCC_MSC.from_bytes'] = rfcomm.RFCOMM_MCC_MSC.from_bytes
    out['rfcomm:RFCOMM_Frame.parse_mcc'] = lambda d: rfcomm.RFCOMM_Frame.parse_mcc(d)
    out['hci:Address.parse_address'] = lambda d: hci.Address.parse_address(d, 0)
    out['hci:Address.parse_random_address'] = lambda d: hci.Address.parse_random_address(d, 0)
    out['hci:Address.parse_address_preceded_by_type'] = lambda d: hci.Address.parse_address_preceded_by_type(d, 1)
    out['avdtp:EndPointInfo.from_bytes'] = avdtp.EndPointInfo.from_bytes
    out['avdtp:ServiceCapabilities.parse_capabilities'] = avdtp.ServiceCapabilities.parse_capabilities
    out['avc:Frame.from_bytes'] = avc.Frame.from_bytes
    out['rtp:MediaPacket.from_bytes'] = rtp.MediaPacket.from_bytes
    out['a2dp:SbcMediaCodecInformation.from_bytes'] = a2dp.SbcMediaCodecInformation.from_bytes
    out['a2dp:AacMediaCodecInformation.from_bytes'] = a2dp.AacMediaCodecInformation.from_bytes
    out['a2dp:VendorSpecificMediaCodecInformation.from_bytes'] = a2dp.VendorSpecificMediaCodecInformation.from_bytes
    for name, cls in sorted(inspect.getmembers(data_types, inspect.isclass)):
        if cls.__module__ == data_types.__name__ and issubclass(cls, core.DataType) and getattr(cls, 'ad_type', None) is not None:
            out[f'data_types:{name}.from_bytes'] = cls.from_bytes
    return out


def _immutable(v):
    import enum
    return v is None or isinstance(v, (int, str, bytes, float, enum.Enum, frozenset))


def history_snapshot(v, depth=0):
    """what a parse result says: its octets, its canonical field values, its public attributes"""
    from translate import c18_registries as R
    import enum
    import re
    if isinstance(v, enum.Enum):
        return ('enum', type(v).__name__, v.value)
    if isinstance(v, (bytes, bytearray, memoryview)):
        return bytes(v)
    if _immutable(v):
        return v
    if isinstance(v, (list, tuple)):
        return [history_snapshot(x, depth + 1) for x in v]
    if isinstance(v, dict):
        return sorted((repr(k), history_snapshot(x, depth + 1)) for k, x in v.items())
    out = [type(v).__name__]
    ok, b = attempt(lambda: bytes(v)) if hasattr(v, '__bytes__') else (False, None)
    out.append(('bytes', b) if ok else ('bytes', None))
    try:
        out.append(('canon', R.canon(v)))
    except Exception:  # noqa: BLE001
        out.append(('canon', None))
    if depth < 3 and hasattr(v, '__dict__'):
        for k, x in sorted(vars(v).items()):
            if k.startswith('_') or callable(x) or k == 'name':
                continue
            try:
                out.append((k, history_snapshot(x, depth + 1)))
            except Exception:  # noqa: BLE001
                out.append((k, re.sub(r'0x[0-9a-f]+', '', repr(x))))
    return out


HISTORY_EXTRA = bytes.fromhex('03030f18')       # a Complete List of 16-bit Service UUIDs structure


def history_mutate(v):
    """edit a parse result in place the way an application does (append a scan response to the
    advertising data, edit a field, extend a list): every public list / dict / bytearray attribute is
    extended in place, every bytes / int attribute is rebound, and drop the cached serialisation.
    Nested objects are not entered (a UUID found inside may be the registered, shared one)."""
    from bumble import core
    did = []
    if isinstance(v, core.AdvertisingData):
        v.append(HISTORY_EXTRA)
        did.append('append')
    objs = [v] + (list(v) if isinstance(v, (list, tuple)) else [])
    for o in objs:
        if isinstance(o, list):
            o.append(o[0] if o else 0)
            did.append('list.append')
            continue
        if isinstance(o, dict):
            o['__c18__'] = 1
            did.append('dict.set')
            continue
        if isinstance(o, core.UUID) or _immutable(o) or not hasattr(o, '__dict__'):
            continue
        for k, x in list(vars(o).items()):
            try:
                if isinstance(x, list):
                    x.append(x[0] if x else (1, b'\x5a'))
                elif isinstance(x, bytearray):
                    x.append(0x5A)
                elif isinstance(x, dict):
                    x['__c18__'] = 1
                elif isinstance(x, (bytes,)):
                    setattr(o, k, x + b'\x5a')
                elif isinstance(x, bool):
                    setattr(o, k, not x)
                elif type(x) is int:
                    setattr(o, k, x ^ 1)
                else:
                    continue
                did.append(k)
            except Exception:  # noqa: BLE001
                pass
    return did


def history_oracle(entry, data, between=()):
    """parse(X); mutate the result; other parses; parse(X) again: the second result must be a FRESH
    object saying exactly what a parse of X says (the first result, recorded before the mutation):
    parse is a function of the bytes, whatever has been parsed or edited earlier in the process.
    -> None or (signature, description)"""
    parsers = history_parsers()
    if entry not in parsers:
        return ('replay:unsupported', f'no parser entry point {entry}')
    parse = parsers[entry]
    ok, r1 = attempt(parse, data)
    if not ok:
        return None
    before = history_snapshot(r1)
    did = history_mutate(r1) if entry != 'core:UUID.from_bytes' else []        # UUID objects ARE the registry, by design
    for other, d in between:
        if other in parsers:
            ok, r = attempt(parsers[other], d)
            if ok and other != 'core:UUID.from_bytes':
                history_mutate(r)
    ok, r2 = attempt(parse, data)
    short = entry.split(':', 1)[1].replace('.from_bytes', '') if not entry.startswith('class:') else entry.split(':', 2)[2]
    proto = entry.split(':')[1] if entry.startswith('class:') else entry.split(':')[0]
    if not ok:
        return (f'{proto}:{short}:history', f'{entry}({data[:24].hex()}) succeeds, then after an edit of its result the same octets are rejected: {r2}')
    if r2 is r1 and did:
        return (f'{proto}:{short}:history', f'{entry}({data[:24].hex()}) returns the SAME object for equal octets: the edit ({", ".join(did[:4])}) '
                                            f'made to the first result is visible in the second')
    after = history_snapshot(r2)
    if after != before:
        diff = next((f'{a!r:.100} -> {b!r:.100}' for a, b in zip(before, after) if a != b), f'{before!r:.100} -> {after!r:.100}') \
            if isinstance(before, list) and isinstance(after, list) else f'{before!r:.100} -> {after!r:.100}'
        return (f'{proto}:{short}:history', f'{entry}({data[:24].hex()}) parsed twice with an edit of the first result in between gives different values: {diff}')
    return None


def history_samples(rng, entry):
    """well-formed (mostly) octets for one entry point; registry classes are built from their field specs"""
    from translate import c18_registries as R
    from bumble import avdtp
    if entry.startswith('class:'):
        _, proto, name = entry.split(':', 2)
        e = next(x for x in R.registries() if x.proto == proto and x.cls.__name__ == name)
        try:
            return [R.payload_bytes(e, e.build(R.gen_kwargs(rng, name, e.fields)))]
        except Exception:  # noqa: BLE001
            return []
    if entry == 'core:AdvertisingData.from_bytes':
        out = [bytes.fromhex('020106') + bytes([5, 9]) + b'abcd']
        d = b''
        for _ in range(rng.choice([0, 1, 2, 3])):
            v = rng.bytes(rng.choice([0, 1, 4, 9]))
            d += bytes([len(v) + 1, rng.below(256)]) + v
        return out + [d]
    if entry == 'core:UUID.from_bytes':
        return [rng.bytes(rng.choice([2, 4, 16]))]
    if entry == 'l2cap:EnhancedControlField.from_bytes':
        return [rng.bytes(2)]
    if entry == 'l2cap:L2CAP_PDU.from_bytes':
        b = rng.bytes(rng.choice([0, 1, 7]))
        return [struct.pack('<HH', len(b), rng.choice([1, 4, 0x40])) + b]
    if entry == 'l2cap:L2CAP_Control_Frame.from_bytes':
        return [bytes([rng.choice([0x02, 0x0A, 0x0B, 0x7F]), rng.below(256)]) + struct.pack('<HHH', 4, 1, 0x40)]
    if entry.endswith('decode_configuration_options'):
        return [bytes.fromhex('01020002'), bytes.fromhex('0102a000' '0409030000000000000000')]
    if entry == 'sdp:DataElement.from_bytes':
        return [bytes(sdp_build(sdp_gen_tree(rng, 3))), bytes(sdp_build(('seq', [('u', 2, 0x1234), ('seq', []), ('text', b'ab')])))]
    if entry == 'rfcomm:RFCOMM_Frame.from_bytes':
        return [rfcomm_spec_frame(0xEF, rng.below(2), rng.below(62), 0, rng.bytes(rng.choice([0, 3, 130]))),
                rfcomm_spec_frame(0x2F, 1, 0, 1, b'')]
    if entry == 'rfcomm:RFCOMM_MCC_PN.from_bytes':
        return [bytes([rng.below(64), 0xE0, rng.below(64), 0]) + struct.pack('<H', rng.below(1 << 15)) + bytes([0, rng.below(8)])]
    if entry == 'rfcomm:RFCOMM_MCC_MSC.from_bytes':
        return [bytes([(rng.below(62) << 2) | 3, rng.below(256) | 1])]
    if entry == 'rfcomm:RFCOMM_Frame.parse_mcc':
        v = rng.bytes(rng.choice([0, 2, 8]))
        return [bytes([(rng.choice([0x20, 0x38]) << 2) | (rng.below(2) << 1) | 1, (len(v) << 1) | 1]) + v]
    if entry.startswith('hci:Address.parse_address_preceded'):
        return [bytes([rng.below(4)]) + rng.bytes(6)]
    if entry.startswith('hci:Address'):
        return [rng.bytes(6)]
    if entry == 'avdtp:EndPointInfo.from_bytes':
        return [bytes([rng.below(64) << 2 | rng.below(2) << 1, rng.below(3) << 4 | rng.below(2) << 3])]
    if entry == 'avdtp:ServiceCapabilities.parse_capabilities':
        return [bytes.fromhex('0100' '0706' '0000' '21150235'), bytes([1, 0, 4, 2, rng.below(256), rng.below(256)])]
    if entry == 'avc:Frame.from_bytes':
        return [bytes([rng.choice([0, 9]), 0x48, 0x7C, rng.below(256), 0]), bytes([0, 0x48, 0x00, 0x00, 0x19, 0x58]) + rng.bytes(4)]
    if entry == 'rtp:MediaPacket.from_bytes':
        cc = rng.choice([0, 0, 2])
        return [bytes([0x80 | cc, rng.below(256)]) + rng.bytes(10 + 4 * cc + rng.choice([0, 5]))]
    if entry.startswith('a2dp:Sbc'):
        return [rng.bytes(4)]
    if entry.startswith('a2dp:Aac'):
        return [rng.bytes(6)]
    if entry.startswith('a2dp:Vendor'):
        return [rng.bytes(rng.choice([6, 9]))]
    if entry.startswith('data_types:'):
        return [rng.bytes(n) for n in (1, 2, 4, 6, 7, 16, 17)]
    return []


def sec_history(ctx, B):
    """every parser entry point: parse(X) -> edit the result in place -> (other parses, edited too) ->
    parse(X) again must give a fresh object with the value a parse of X has.  Oracle only: in the
    models parse IS a function (a Gallina term); this is what ties the code to that."""
    rng = ctx.rng.fork('history')
    parsers = history_parsers()
    names = sorted(parsers)
    pool = []
    exercised, never = {}, []
    for rounds in range(ctx.n(2, 30)):
        for entry in names:
            for d in history_samples(rng, entry):
                if attempt(parsers[entry], d)[0]:
                    pool.append((entry, d))
                    if len(pool) > 64:
                        pool.pop(rng.below(len(pool)))
                else:
                    continue
                between = [pool[rng.below(len(pool))] for _ in range(rng.choice([0, 1, 3]))]
                if rng.chance(1, 3):
                    between.append((entry, d[:-1] + bytes([d[-1] ^ 1]) if d else d))
                bad = history_oracle(entry, d, between)
                exercised[entry] = exercised.get(entry, 0) + 1
                ctx.case(('history', entry, d, tuple(between)), True)
                ctx.count('history.cases')
                if bad:
                    ctx.violation(bad[0], bad[1], {'kind': 'history', 'entry': entry, 'data': d.hex(),
                                                   'between': [[o, x.hex()] for o, x in between]})
    never = [n for n in names if n not in exercised]
    ctx.extra['history_entry_points'] = len(exercised)
    ctx.extra['history_never_accepted'] = never
    ctx.count('history.entry-points', len(exercised))


# ----------------------------------------------------------------------------- replay / corpus / search
def folder_items_oracle(n_items, seed):
    """AVRCP GetFolderItemsResponse with n browseable items: the parsed items serialise as the items sent"""
    from bumble import avrcp
    from lib.verif import Rng
    from translate import c18_registries as R
    rng = Rng(seed)
    subs = sorted(avrcp.BrowseableItem.subclasses.items(), key=lambda kv: int(kv[0]))
    items = []
    for _ in range(n_items):
        _, sub = rng.choice(subs)
        items.append(sub(**R.gen_kwargs(rng, sub.__name__, sub.fields)))
    rsp = avrcp.GetFolderItemsResponse(status=avrcp.StatusCode(4), uid_counter=1, items=items)
    b = bytes(rsp)
    p = avrcp.Response.from_bytes(b, avrcp.PduId.GET_FOLDER_ITEMS)
    got = [bytes(i) for i in p.items]
    want = [bytes(i) for i in items]
    if got != want:
        k = next(i for i, (g, w) in enumerate(zip(got, want)) if g != w) if len(got) == len(want) else -1
        return ('avrcp.response:GetFolderItemsResponse:items', f'item {k} of {n_items} re-serialises as {len(got[k]) if k >= 0 else "?"} octets instead of {len(want[k]) if k >= 0 else "?"}')
    return None


def oracle_replay(r):
    """the property oracle on the implementation for one replay object -> None or (signature, description)"""
    from bumble import rfcomm, sdp, rtp, avdtp, l2cap, att, smp, core
    k = r['kind']
    if k == 'ertm-value':
        return ecf_oracle_value(r['frame'], tuple(r['fields']))
    if k == 'ertm-bytes':
        return ecf_oracle_bytes(bytes.fromhex(r['data']))
    if k == 'psm':
        v = r['psm']
        ser = l2cap.L2CAP_Connection_Request.serialize_psm(v)
        ok, res = attempt(l2cap.L2CAP_Connection_Request.parse_psm, ser, 0)
        if psm_spec_valid(v) and not (ok and res == (len(ser), v)):
            return ('l2cap:L2CAP_Connection_Request:psm', f'PSM {v:#x} -> {ser.hex()} -> {res}')
        return None
    if k == 'rfcomm-frame':
        return rfcomm_frame_oracle(r['type'], r['cr'], r['dlci'], r['pf'], bytes.fromhex(r['info']), r['credits'])
    if k == 'rfcomm-rx':
        d = bytes.fromhex(r['data'])
        ok, p = attempt(rfcomm.RFCOMM_Frame.from_bytes, d)
        if not ok or bytes(p) != d:
            return ('rfcomm:RFCOMM_Frame:bytes', f'{d[:6].hex()}.. ' + (f'rejected ({p})' if not ok else f're-serialises as {bytes(p)[:6].hex()}..'))
        return None
    if k == 'mcc':
        v = bytes.fromhex(r['value'])
        b = rfcomm.RFCOMM_Frame.make_mcc(r['type'], r['cr'], v)
        ok, res = attempt(rfcomm.RFCOMM_Frame.parse_mcc, b)
        if not ok or (res[0], bool(res[1]), bytes(res[2])) != (r['type'], bool(r['cr']), v):
            return (f'rfcomm:MCC:len{len(v)}', f'MCC with {len(v)} value octets does not parse back')
        return None
    if k == 'mcc-rx':
        d = bytes.fromhex(r['data'])
        ok, res = attempt(rfcomm.RFCOMM_Frame.parse_mcc, d)
        n = len(d) - (3 if not d[1] & 1 else 2)
        if not ok or rfcomm.RFCOMM_Frame.make_mcc(res[0], int(res[1]), bytes(res[2])) != d:
            return (f'rfcomm:MCC:len{n}', f'well-formed MCC {d[:4].hex()}.. ({n} value octets) ' +
                    ('is rejected' if not ok else f'parses to {len(res[2])} value octets and re-serialises differently'))
        return None
    if k == 'sdp-value':
        return sdp_value_oracle(_tree_unjson(r['tree']))
    if k == 'sdp-rx':
        d = bytes.fromhex(r['data'])
        ok, p = attempt(sdp.DataElement.from_bytes, d)
        if not ok:
            return ('sdp:DataElement:parse', f'{d[:16].hex()} rejected ({p})')
        c = bytes(p)
        ok2, f = attempt(lambda: bytes(sdp_fresh(p)))
        if c != d[:len(c)] or not ok2 or f != c:
            return (f'sdp:DataElement.{p.type.name}:bytes', 'does not re-serialise identically')
        return None
    if k == 'uuid-history':
        return uuid_history_oracle(r['ops'])[1]
    if k == 'rtp':
        f = dict(r['fields'])
        f['payload'] = bytes.fromhex(f['payload'])
        obj = rtp.MediaPacket(**f)
        b = bytes(obj)
        ok, q = attempt(rtp.MediaPacket.from_bytes, b)
        cc = len(f['csrc_list'])
        if not ok:
            return (f'rtp:MediaPacket:csrc{cc}', f'own bytes rejected: {q}')
        diff = [n for n in f if getattr(q, n) != f[n]]
        if diff or bytes(q) != b:
            return (f'rtp:MediaPacket:{",".join(diff) or "bytes"}:csrc{cc}', f'packet with {cc} CSRC entries parses back with different {diff or "bytes"}: csrc {q.csrc_list} instead of {f["csrc_list"]}')
        return None
    if k == 'rtp-rx':
        d = bytes.fromhex(r['data'])
        ok, q = attempt(rtp.MediaPacket.from_bytes, d)
        cc = d[0] & 15 if d else 0
        if len(d) >= 12 + 4 * cc and (not ok or bytes(q) != d):
            return (f'rtp:MediaPacket:bytes:csrc{cc}', f'{d.hex()} ' + ('is rejected' if not ok else f're-serialises as {bytes(q).hex()}'))
        return None
    if k == 'avdtp-header':
        payload = bytes.fromhex(r['payload'])
        msg = avdtp.Message()
        msg.message_type = avdtp.Message.MessageType(r['mt'])
        msg.signal_identifier = avdtp.SignalIdentifier(r['sig'])
        msg.payload = payload
        got = avdtp_receive(avdtp_send(r['tl'], msg, r['mtu']))
        single = len(payload) + 2 <= r['mtu']
        if len(got) != 1 or got[0][0] != r['tl'] or int(got[0][1].message_type) != r['mt'] or int(got[0][1].signal_identifier) != r['sig'] \
                or bytes(got[0][1].payload) != payload:
            return (f'avdtp:Message:header:{"single" if single else "fragmented"}',
                    f'tl={r["tl"]} type={r["mt"]} signal={r["sig"]} payload {len(payload)} octets over mtu {r["mtu"]}: received '
                    f'{[(t, int(m.message_type), int(m.signal_identifier), len(m.payload)) for t, m in got]}')
        return None
    if k == 'unknown-code':
        d = bytes.fromhex(r['data'])
        parse = {'l2cap': l2cap.L2CAP_Control_Frame.from_bytes, 'att': att.ATT_PDU.from_bytes, 'smp': smp.SMP_Command.from_bytes}[r['proto']]
        ok, p = attempt(parse, d)
        if not ok or bytes(p) != d:
            return (f'{r["proto"]}:{type(p).__name__ if ok else "parse"}:unknown-code',
                    f'{r["proto"]} PDU with unregistered code {d[0]:#x}: {d.hex()} ' + (f'is rejected ({p})' if not ok else f're-serialises as {bytes(p).hex()}'))
        return None
    if k == 'avc':
        return avc_value_oracle(r['frame'], r['args'])
    if k == 'class-wire':
        from translate import c18_registries as R
        for e in R.registries():
            if e.proto == r['proto'] and e.cls.__name__ == r['class']:
                return R.wire_roundtrip(e, bytes.fromhex(r['data']))
        return ('replay:unsupported', 'class not registered any more')
    if k == 'folder-items':
        return folder_items_oracle(r['items'], r['seed'])
    if k == 'adv-rx':
        d = bytes.fromhex(r['data'])
        p = core.AdvertisingData.from_bytes(d)
        return None if bytes(p) == d else ('core:AdvertisingData:bytes', f'{d.hex()} re-serialises as {bytes(p).hex()}')
    if k == 'history':
        return history_oracle(r['entry'], bytes.fromhex(r['data']), [(o, bytes.fromhex(x)) for o, x in r.get('between', [])])
    return ('replay:unsupported', f'replay kind {k}: re-run ./check C18 with the same VERIF_SEED to reproduce')


def run_corpus(ctx):
    import glob
    import json
    import os
    here = os.path.dirname(os.path.dirname(os.path.dirname(os.path.abspath(__file__))))
    for path in sorted(glob.glob(os.path.join(here, 'corpus', 'C18', '*.json'))):
        with open(path) as f:
            obj = json.load(f)
        r = obj['replay']
        bad = oracle_replay(r)
        ctx.case(('corpus', os.path.basename(path)), True)
        ctx.count('corpus')
        if bad and bad[0] != 'replay:unsupported':
            ctx.violation(bad[0], f'{os.path.basename(path)}: {bad[1]}', r)


class NullBatch:
    """oracle-only pass: the model expressions are not evaluated"""
    preamble = []

    def __init__(self):
        self.preamble = []

    def add(self, *a, **k):
        pass

    def run(self):
        pass


SECTIONS = []


def search(ctx):
    """Directed search after a broken proof / correspondence: the oracle-only campaign at the
    thorough size over several derived seeds (no Coq)."""
    from lib.verif import Rng
    tier = ctx.tier
    rng0 = ctx.rng
    try:
        ctx.tier = 'thorough'
        for k in range(2):
            ctx.rng = Rng(ctx.seed + 7919 * (k + 1)).fork('C18-search')
            nb = NullBatch()
            for sec in SECTIONS:
                sec(ctx, nb)
                if ctx.violations:
                    return
    finally:
        ctx.tier = tier
        ctx.rng = rng0


def replay(ctx, obj):
    r = obj['replay']
    bad = oracle_replay(r)
    print('replay:', r)
    if bad is None:
        print('oracle: holds')
    else:
        print('oracle: VIOLATED', bad[0])
        print('  ', bad[1])
    return 0


def run(ctx):
    ctx.rule = ('per codec: boundary-biased values (every length-encoding boundary: RFCOMM 127/128 with and without the credits '
                'octet, SDP 255/256/65535/65536, PSM 2..6 octets, nesting up to the parser limit +1) and received octets '
                '(laid out per the specification, then truncated / mutated / non-canonical); UUID: histories of '
                'from_bytes/from_16_bits/from_32_bits/UUID(str)/parse_uuid operations on the live process registry before each '
                'round trip; every class of L2CAP_Control_Frame.classes, ATT_PDU.pdu_classes, SMP_Command.smp_classes, '
                'SDP_PDU.subclasses, avdtp.Message.subclasses, avrcp Command/Response/Event.subclasses built from its field '
                'specs, serialised, parsed, compared field by field and re-serialised; non-trivial = exercises a variable-length '
                'form, a flag bit, nesting, a registry history or a class with fields')
    ctx.assumptions += [
        'URL data elements are modelled by their UTF-8 octets (str.encode / bytes.decode trusted to be inverse on valid UTF-8)',
        'UUID names and the DataElement._bytes cache of child elements are not modelled (they take no part in equality or bytes)',
        'bytes.fromhex is modelled for hexadecimal digits only (strings with whitespace are outside the Address string model)',
        'field-driven PDU classes (L2CAP signalling, ATT, SMP, SDP PDUs, AVDTP messages), AVRCP/AVC PDUs, A2DP codec information '
        'and typed AD structures are covered by the oracle on the real classes only, not by a Coq model',
        'AVDTP / AVCTP fragmentation and reassembly beyond the first packet header is property C19',
    ]
    ctx.trusted += ['tools/translate/c18_tables.py (constants regenerated from rfcomm/sdp/core/avdtp/avctp/hci on every run)',
                    'tools/translate/c18_registries.py (value generators and class round-trip oracle)']
    run_corpus(ctx)
    B = Batch(ctx)
    for sec in SECTIONS:
        sec(ctx, B)
    ctx.log('generated', len(B.items), 'model expressions,', ctx.evaluations, 'cases')
    B.run()
    ctx.log('compared')
    by = {}
    for d in ctx.disagreements:
        by[d['what']] = by.get(d['what'], 0) + 1
    ctx.extra['disagreements_by_kind'] = by
    sig = {}
    for v in ctx.violations:
        sig[v['signature']] = sig.get(v['signature'], 0) + 1
    ctx.extra['violation_signatures'] = sig


SECTIONS[:] = [sec_ertm, sec_l2cap_misc, sec_rfcomm, sec_sdp, sec_uuid, sec_address, sec_adv, sec_av, sec_registries,
               sec_registry_model, sec_xregistry_model, sec_avrcp_model, sec_a2dp, sec_parse_driven, sec_history]
