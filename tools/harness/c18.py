"""C18 — every protocol data unit above HCI round-trips through its codec.

Correspondence of the hand-written Coq models (Model/Codecs*.v) with the real classes and
functions of bumble (l2cap, rfcomm, sdp, core, hci, avdtp, avctp, rtp), and the property
oracle on the implementation: construct -> bytes -> parse -> equal, and parse -> bytes -> same
bytes, for every hand-modelled codec and for EVERY registered PDU class of every protocol
(L2CAP signalling, ATT, SMP, SDP, AVDTP, AVRCP/AVC, A2DP codec information) on every run.

Signatures of violations: '<protocol>:<class>:<field or boundary>'.
"""
import logging
import struct
import types

from lib.verif import coq_z

PROP_FILES = ['Props/C18.v']
LEVEL = 'proof'

logging.disable(logging.CRITICAL)

MODS = ['Base.Bytes', 'Model.CodecsBase', 'Gen.C18Tables', 'Model.CodecsL2cap', 'Model.CodecsRfcomm', 'Model.CodecsSdp', 'Model.CodecsUuid', 'Model.CodecsAv']


def regen(ctx):
    from translate import c18_tables
    ctx.write_gen('C18Tables', c18_tables.generate())


# ----------------------------------------------------------------------------- helpers
def dgst(b) -> int:
    a = 7
    for x in b:
        a = (a * 31 + x + 1) & 0x3FFFFFFF
    return a


def dg(b):
    return (len(b), dgst(b))


def cb(b) -> str:
    """bytes -> Coq term of type list Z; long runs become (repeat x n) so that 64 KiB
    payloads stay small in the generated file"""
    b = bytes(b)
    if len(b) <= 48:
        return '[' + '; '.join(str(x) for x in b) + ']'
    parts = []
    lit = []
    i = 0
    while i < len(b):
        j = i
        while j < len(b) and b[j] == b[i]:
            j += 1
        if j - i >= 24:
            if lit:
                parts.append('[' + '; '.join(str(x) for x in lit) + ']')
                lit = []
            parts.append(f'repeat {b[i]} {j - i}')
            i = j
        else:
            lit.extend(b[i:j])
            i = j
    if lit:
        parts.append('[' + '; '.join(str(x) for x in lit) + ']')
    return '(' + ' ++ '.join(parts) + ')'


def cz(n) -> str:
    return coq_z(int(n))


def cbool(v) -> str:
    return 'true' if v else 'false'


def norm(v):
    """canonical form of a parsed Coq value / of the expected implementation value:
    pairs are flattened (Coq prints ((a, b), c) as (a, b, c)), lists stay lists,
    ('Some', x) / None are options, booleans and integers are atoms.  Expected values are
    written with Python tuples for Coq pairs, lists for Coq lists, some(x) / None for options."""
    if isinstance(v, tuple):
        if v and v[0] == 'Some':
            inner = norm(v[1] if len(v) == 2 else tuple(v[1:]))
            return ('Some', inner)
        out = []
        for x in v:
            n = norm(x)
            if isinstance(n, tuple) and not (n and n[0] == 'Some'):
                out.extend(n)
            else:
                out.append(n)
        return tuple(out)
    if isinstance(v, list):
        return [norm(x) for x in v]
    if isinstance(v, (bytes, bytearray)):
        return [int(x) for x in v]
    if isinstance(v, bool) or v is None:
        return v
    if isinstance(v, int):
        return int(v)
    if v == 'None':
        return None
    return v


def some(x):
    return ('Some', x)


def fill(rng, n):
    """n octets: mostly a constant fill (cheap to render) with a few random octets at both ends"""
    if n <= 40:
        return rng.bytes(n)
    return rng.bytes(4) + bytes([rng.below(256)]) * (n - 8) + rng.bytes(4)


class Batch:
    """collects Coq expressions with the implementation's value for the same input"""

    def __init__(self, ctx):
        self.ctx = ctx
        self.items = []

    def add(self, expr, expect, what, case, extra=None):
        self.items.append((expr, expect, what, case, extra))

    def run(self):
        if not self.items:
            return
        vals = self.ctx.coq_eval(MODS, [it[0] for it in self.items])
        for (expr, expect, what, case, extra), v in zip(self.items, vals):
            m = norm(v)
            if expect is not SKIP and m != norm(expect):
                self.ctx.disagree(what, case, repr(m)[:600], repr(norm(expect))[:600])
            if extra is not None:
                extra(m)
        self.items = []


SKIP = object()


def attempt(f, *a, **k):
    """(True, result) or (False, exception class name)"""
    try:
        return True, f(*a, **k)
    except Exception as e:  # noqa: BLE001 - every exception is an error outcome
        return False, type(e).__name__


# ----------------------------------------------------------------------------- L2CAP: ERTM control fields
def ecf_obs(p):
    from bumble import l2cap
    if isinstance(p, l2cap.InformationEnhancedControlField):
        return [0, int(p.tx_seq), int(p.sar), int(p.req_seq), int(p.final)]
    return [1, int(p.supervision_function), int(p.poll), int(p.req_seq), int(p.final)]


ECF_NAMES = [['tx_seq', 'sar', 'req_seq', 'final'], ['supervision_function', 'poll', 'req_seq', 'final']]


def ecf_oracle_value(kind, vals):
    """construct -> bytes -> parse -> equal; returns None or (signature, description)"""
    from bumble import l2cap
    if kind == 0:
        obj = l2cap.InformationEnhancedControlField(tx_seq=vals[0], sar=vals[1], req_seq=vals[2], final=vals[3])
    else:
        obj = l2cap.SupervisoryEnhancedControlField(supervision_function=vals[0], poll=vals[1], req_seq=vals[2],
                                                    final=vals[3])
    b = bytes(obj)
    p = l2cap.EnhancedControlField.from_bytes(b)
    got = ecf_obs(p)
    want = [kind] + list(vals)
    if got != want or not (p == obj):
        bad = 'class' if got[0] != kind else ','.join(n for n, g, w in zip(ECF_NAMES[kind], got[1:], vals) if g != w)
        return (f'l2cap:{type(obj).__name__}:{bad}',
                f'{type(obj).__name__}{tuple(vals)} -> {b.hex()} -> {got}')
    return None


def ecf_oracle_bytes(d):
    """parse -> bytes -> same bytes for a control field whose reserved bits are zero"""
    from bumble import l2cap
    if len(d) < 2:
        return None
    sframe = d[0] & 1
    if sframe and ((d[0] & 0x62) or (d[1] & 0x80)):
        return None
    p = l2cap.EnhancedControlField.from_bytes(d)
    out = bytes(p)
    if out != bytes(d[:2]):
        return (f'l2cap:{type(p).__name__}:bytes', f'{bytes(d[:2]).hex()} parses to {p} which serialises to {out.hex()}')
    return None


def sec_ertm(ctx, B):
    from bumble import l2cap
    rng = ctx.rng.fork('ertm')
    vals = []
    for tx in (0, 1, 31, 62, 63):
        for sar in range(4):
            for req in (0, 1, 63):
                for fin in (0, 1):
                    vals.append((0, (tx, sar, req, fin)))
    for fn in range(4):
        for poll in (0, 1):
            for req in (0, 1, 63, 64, 127):
                for fin in (0, 1):
                    vals.append((1, (fn, poll, req, fin)))
    for _ in range(ctx.n(60, 2000)):
        if rng.chance(1, 2):
            vals.append((0, (rng.below(64), rng.below(4), rng.below(64), rng.below(2))))
        else:
            vals.append((1, (rng.below(4), rng.below(2), rng.below(128), rng.below(2))))
    for kind, v in vals:
        if kind == 0:
            obj = l2cap.InformationEnhancedControlField(tx_seq=v[0], sar=v[1], req_seq=v[2], final=v[3])
            term = f'IFrame {{| i_tx_seq := {v[0]}; i_sar := {v[1]}; i_req_seq := {v[2]}; i_final := {v[3]} |}}'
        else:
            obj = l2cap.SupervisoryEnhancedControlField(supervision_function=v[0], poll=v[1], req_seq=v[2], final=v[3])
            term = f'SFrame {{| s_function := {v[0]}; s_poll := {v[1]}; s_req_seq := {v[2]}; s_final := {v[3]} |}}'
        b = bytes(obj)
        ok, p = attempt(l2cap.EnhancedControlField.from_bytes, b)
        ctx.case(('ecf', kind, v), kind == 0 or v[1] == 1,
                 {'codec': 'l2cap ERTM control field', 'frame': 'IS'[kind], 'fields': list(v), 'bytes': b.hex()} if len(ctx.samples) < 1 else None)
        ctx.count('l2cap.ertm.value.' + 'IS'[kind])
        bad = ecf_oracle_value(kind, v)
        if bad:
            ctx.violation(bad[0], bad[1], {'kind': 'ertm-value', 'frame': kind, 'fields': list(v)})
        B.add(f'(ecf_bytes ({term}), ecf_parse_obs (ecf_bytes ({term})))',
              (list(b), some(ecf_obs(p)) if ok else None), 'ERTM control field value', {'frame': kind, 'fields': list(v)})
    # received octets: first octets x boundary second octets, random pairs, short input
    ds = [bytes([a, b]) for a in range(256) for b in (0, 0x3F, 0x40, 0x7F, 0x80, 0xFF)]
    ds = rng.shuffle(ds)[:ctx.n(200, 1536)]
    ds += [b'', b'\x00', b'\x01', b'\x11\x05\xaa']
    ds += [rng.bytes(2) + rng.bytes(rng.below(3)) for _ in range(ctx.n(60, 1500))]
    for d in ds:
        ok, p = attempt(l2cap.EnhancedControlField.from_bytes, d)
        ctx.case(('ecf-bytes', d), len(d) >= 2)
        ctx.count('l2cap.ertm.bytes')
        bad = ecf_oracle_bytes(d)
        if bad:
            ctx.violation(bad[0], bad[1], {'kind': 'ertm-bytes', 'data': d.hex()})
        B.add(f'(ecf_parse_obs {cb(d)}, option_map ecf_bytes (ecf_parse {cb(d)}))',
              (some(ecf_obs(p)), some(list(bytes(p)))) if ok else (None, None),
              'ERTM control field bytes', {'data': d.hex()})


# ----------------------------------------------------------------------------- L2CAP: PDU header, PSM, options
def psm_spec_valid(v):
    """Vol 3 Part A 4.2: at least two octets, every octet above the first odd except the most
    significant one, which is even (independent statement, not derived from the model)"""
    if v < 0:
        return False
    octs = []
    x = v
    while x:
        octs.append(x & 0xFF)
        x >>= 8
    while len(octs) < 2:
        octs.append(0)
    upper = octs[1:]
    return all(o & 1 for o in upper[:-1]) and upper[-1] & 1 == 0


def sec_l2cap_misc(ctx, B):
    from bumble import l2cap
    rng = ctx.rng.fork('l2cap-misc')
    # ---- basic PDU
    for cid in (0, 1, 0x40, 0xFFFF, 0x10000):
        for n in (0, 1, 2, 255, 256, 1000, 65535, 65536):
            if n >= 65535 and cid != 0x40:
                continue
            payload = fill(rng, n)
            tail = rng.bytes(rng.below(3))
            ok, b = attempt(lambda: bytes(l2cap.L2CAP_PDU(cid, payload)))
            expect = None
            if ok:
                p = l2cap.L2CAP_PDU.from_bytes(b + tail)
                expect = some((dg(b), (p.cid, dg(p.payload))))
                if (p.cid, bytes(p.payload)) != (cid, payload):
                    ctx.violation('l2cap:L2CAP_PDU:length', f'cid={cid} len={n} parses back as cid={p.cid} len={len(p.payload)}',
                                  {'kind': 'l2cap-pdu', 'cid': cid, 'len': n})
                if bytes(l2cap.L2CAP_PDU.from_bytes(b)) != b:
                    ctx.violation('l2cap:L2CAP_PDU:bytes', f'cid={cid} len={n} does not re-serialise identically',
                                  {'kind': 'l2cap-pdu', 'cid': cid, 'len': n})
            ctx.case(('pdu', cid, n), n > 0)
            ctx.count('l2cap.pdu')
            B.add(f'match pdu_bytes {cz(cid)} {cb(payload)} with Some b => '
                  f'match pdu_parse (b ++ {cb(tail)}) with Some (c, p) => Some (dg b, (c, dg p)) | None => None end '
                  f'| None => None end', expect, 'L2CAP_PDU', {'cid': cid, 'len': n})
    for _ in range(ctx.n(30, 400)):
        d = rng.bytes(rng.choice([0, 1, 3, 4, 5, 8, 12]))
        ok, p = attempt(l2cap.L2CAP_PDU.from_bytes, d)
        ctx.case(('pdu-bytes', d), len(d) >= 4)
        ctx.count('l2cap.pdu.bytes')
        B.add(f'pdu_parse {cb(d)}', some((p.cid, list(p.payload))) if ok else None, 'L2CAP_PDU.from_bytes', {'data': d.hex()})
    # ---- PSM
    psms = [0x0001, 0x0003, 0x000F, 0x0011, 0x0019, 0x1001, 0xFEFF, 0x0101, 0x0100, 0, 2, 0xFFFF, 0x10000, 0x010101,
            0x020101, 0x00010101 | (2 << 24), 0x1001 | (0x0201 << 16), 0x800001]
    for _ in range(ctx.n(60, 1500)):
        n = rng.choice([2, 2, 2, 3, 3, 4, 5, 6])
        octs = [rng.below(256)] + [rng.below(128) * 2 + 1 for _ in range(n - 2)] + [rng.below(128) * 2]
        if rng.chance(1, 6):
            octs[rng.below(n)] = rng.below(256)      # possibly invalid
        psms.append(int.from_bytes(bytes(octs), 'little'))
    for v in psms:
        tail = rng.bytes(rng.choice([0, 0, 2, 3]))
        ser = l2cap.L2CAP_Connection_Request.serialize_psm(v)
        ok, r = attempt(l2cap.L2CAP_Connection_Request.parse_psm, ser + tail, 0)
        valid = psm_spec_valid(v)
        ctx.case(('psm', v, tail), valid and v > 0xFFFF)
        ctx.count('l2cap.psm.valid' if valid else 'l2cap.psm.invalid')
        ctx.count(f'l2cap.psm.octets.{len(ser)}')
        if valid and not (ok and r == (len(ser), v)):
            ctx.violation('l2cap:L2CAP_Connection_Request:psm', f'PSM {v:#x} -> {ser.hex()} -> {r}',
                          {'kind': 'psm', 'psm': v})
        B.add(f'(psm_ok {cz(v)}, psm_bytes {cz(v)}, psm_parse (psm_bytes {cz(v)} ++ {cb(tail)}))',
              (valid, list(ser), some((r[1], list((ser + tail)[r[0]:]))) if ok else None), 'PSM codec', {'psm': v})
    # ---- configuration options
    for _ in range(ctx.n(60, 1000)):
        opts = []
        for _ in range(rng.choice([0, 1, 1, 2, 3, 6])):
            opts.append((rng.choice([1, 2, 3, 4, 5, 6, 7, 0x80, 0xFF, rng.below(256)]),
                         fill(rng, rng.choice([0, 1, 2, 4, 9, 22, 254, 255, 255, 256 if rng.chance(1, 8) else 16]))))
        ok, b = attempt(l2cap.L2CAP_Control_Frame.encode_configuration_options, opts)
        expect = None
        if ok:
            dec = l2cap.L2CAP_Control_Frame.decode_configuration_options(b)
            expect = some((dg(b), [(int(t), dg(v)) for t, v in dec]))
            if [(int(t), bytes(v)) for t, v in dec] != [(t, bytes(v)) for t, v in opts]:
                ctx.violation('l2cap:configuration_options:length', f'options {[(t, len(v)) for t, v in opts]} decode differently',
                              {'kind': 'options', 'options': [[t, v.hex()] for t, v in opts]})
            if l2cap.L2CAP_Control_Frame.encode_configuration_options(dec) != b:
                ctx.violation('l2cap:configuration_options:bytes', 'decoded options do not re-encode identically',
                              {'kind': 'options', 'options': [[t, v.hex()] for t, v in opts]})
        ctx.case(('opts', [(t, bytes(v)) for t, v in opts]), len(opts) > 0)
        ctx.count('l2cap.options.value')
        term = '[' + '; '.join(f'({t}, {cb(v)})' for t, v in opts) + ']'
        B.add(f'match tlv_encode {term} with Some b => match tlv_decode_all false b with '
              f'Some l => Some (dg b, map (fun o => (fst o, dg (snd o))) l) | None => None end | None => None end',
              expect, 'configuration options', {'options': [[t, len(v)] for t, v in opts]})
    for _ in range(ctx.n(60, 1000)):
        d = rng.bytes(rng.choice([0, 1, 2, 3, 4, 6, 9, 14]))
        if rng.chance(1, 2) and len(d) >= 2:
            d = bytes([d[0], min(d[1], len(d))]) + d[2:]
        dec = l2cap.L2CAP_Control_Frame.decode_configuration_options(d)
        ctx.case(('opts-bytes', d), len(d) >= 2)
        ctx.count('l2cap.options.bytes')
        B.add(f'tlv_decode_all false {cb(d)}', some([(int(t), list(v)) for t, v in dec]),
              'decode_configuration_options', {'data': d.hex()})


# ----------------------------------------------------------------------------- RFCOMM
def rfcomm_spec_frame(ftype, cr, dlci, pf, payload, credits=None, two_octets=None, fcs_delta=0):
    """a frame laid out as TS 07.10 / RFCOMM 5.x say, with an independent bitwise CRC-8
    (not bumble's table): address, control, 1- or 2-octet length (EA bit), [credits], payload, FCS"""
    addr = (dlci << 2) | (cr << 1) | 1
    ctrl = ftype | (pf << 4)
    n = len(payload)
    if two_octets is None:
        two_octets = n > 127
    ln = bytes([(n & 0x7F) << 1, n >> 7]) if two_octets else bytes([(n << 1) | 1])
    covered = bytes([addr, ctrl]) + (b'' if ftype == 0xEF else ln)
    c = 0xFF
    for byte in covered:
        c ^= byte
        for _ in range(8):
            c = (c >> 1) ^ 0xE0 if c & 1 else c >> 1
    fcs = ((0xFF - c) + fcs_delta) & 0xFF
    return bytes([addr, ctrl]) + ln + (bytes([credits]) if credits is not None else b'') + payload + bytes([fcs])


def frame_fields(f):
    return [int(f.type), int(f.c_r), int(f.dlci), int(f.p_f)], bytes(f.information)


FRAME_OBS = ('match {0} with Some g => Some (fst (fst (frame_obs g)), dg (f_info g), dg (frame_bytes g)) | None => None end')


def sec_rfcomm(ctx, B):
    from bumble import rfcomm
    rng = ctx.rng.fork('rfcomm')
    FT = rfcomm.FrameType
    types_ = [FT.SABM, FT.UA, FT.DM, FT.DISC, FT.UIH, FT.UI]
    lens = [0, 1, 2, 126, 127, 128, 129, 255, 256, 1000]
    cases = []
    for n in lens:
        for pf in (0, 1):
            cases.append((FT.UIH, rng.below(2), rng.choice([0, 1, 2, 31, 61, 63]), pf, n))
    for t in types_:
        for pf in (0, 1):
            cases.append((t, rng.below(2), rng.below(64), pf, rng.choice([0, 0, 1, 127, 128])))
    for _ in range(ctx.n(60, 1500)):
        cases.append((rng.choice(types_), rng.below(2), rng.below(64), rng.below(2),
                      rng.choice(lens + [rng.below(300)])))
    if not ctx.quick():
        cases += [(FT.UIH, 1, 5, 1, 32767), (FT.UIH, 1, 5, 0, 32767), (FT.UIH, 1, 5, 1, 32768), (FT.UIH, 0, 5, 0, 32768)]
    for t, cr, dlci, pf, n in cases:
        credits = (t == FT.UIH and pf == 1)
        # n = payload length; with credits the information field carries one more octet first
        info = (bytes([rng.below(256)]) if credits else b'') + fill(rng, n)
        replay = {'kind': 'rfcomm-frame', 'type': int(t), 'cr': cr, 'dlci': dlci, 'pf': pf, 'info': info.hex(), 'credits': credits}
        bad = rfcomm_frame_oracle(int(t), cr, dlci, pf, info, credits)
        if bad and n <= 32767:
            ctx.violation(bad[0], bad[1], replay)
        ok, f = attempt(rfcomm.RFCOMM_Frame, t, cr, dlci, pf, info, credits)
        expect = SKIP
        if ok:
            b = bytes(f)
            ok2, p = attempt(rfcomm.RFCOMM_Frame.from_bytes, b)
            if ok2:
                fl, inf = frame_fields(p)
                expect = (dg(b), some((fl, dg(inf), dg(bytes(p)))))
            else:
                expect = (dg(b), None)
        ctx.case(('rfcomm', int(t), cr, dlci, pf, n), n in (127, 128) or credits,
                 {'codec': 'RFCOMM_Frame', 'type': t.name, 'payload_octets': n, 'credits': credits} if len(ctx.samples) < 2 else None)
        ctx.count('rfcomm.frame.value')
        ctx.count('rfcomm.frame.len.' + ('2-octet' if n > 127 else '1-octet') + ('.credits' if credits else ''))
        term = (f'{{| f_type := {int(t)}; f_cr := {cr}; f_dlci := {dlci}; f_pf := {pf}; f_info := {cb(info)}; '
                f'f_credits := {cbool(credits)} |}}')
        if n <= 32767:      # frame_ok; beyond it the model makes no claim
            B.add(f'let f := {term} in (dg (frame_bytes f), ' + FRAME_OBS.format('frame_parse (frame_bytes f)') + ')',
                  expect, 'RFCOMM_Frame value', {'case': [int(t), cr, dlci, pf, n]})
    # received frames: laid out by the specification, then also broken ones
    rx = []
    for n in [0, 1, 126, 127, 128, 129, 300]:
        for pf in (0, 1):
            rx.append((rfcomm_spec_frame(0xEF, 1, 7, pf, fill(rng, n), credits=rng.below(256) if pf else None), True, n, pf))
    for _ in range(ctx.n(80, 2000)):
        t = int(rng.choice(types_))
        pf = rng.below(2)
        n = rng.choice([0, 1, 5, 127, 128, 200])
        credits = rng.below(256) if (t == 0xEF and pf == 1) else None
        kind = rng.below(10)
        f = rfcomm_spec_frame(t, rng.below(2), rng.below(64), pf, fill(rng, n), credits=credits,
                              two_octets=True if kind == 0 else None, fcs_delta=1 if kind == 1 else 0)
        if kind == 2:
            f = f[:rng.below(len(f))]
        if kind == 3:
            f = bytes([f[0] & 0xFE]) + f[1:]       # EA bit of the address cleared
        if kind == 4:
            f = f[:1] + bytes([rng.below(256)]) + f[2:]
        rx.append((f, kind >= 5 or (kind == 0 and n > 127), n, pf if t == 0xEF else 0))
    for d, wellformed, n, pf in rx:
        ok, p = attempt(rfcomm.RFCOMM_Frame.from_bytes, d)
        expect = None
        if ok:
            fl, inf = frame_fields(p)
            expect = some((fl, dg(inf), dg(bytes(p))))
        ctx.case(('rfcomm-rx', d), ok)
        ctx.count('rfcomm.frame.bytes.' + ('accepted' if ok else 'rejected'))
        if wellformed and (not ok or bytes(p) != d):
            ctx.violation(f'rfcomm:RFCOMM_Frame:len{n}' + ('+credits' if pf else ''),
                          f'frame with {n} payload octets laid out per the specification ({d[:4].hex()}..): '
                          + (f'rejected ({p})' if not ok else f're-serialises as {bytes(p)[:4].hex()}..'),
                          {'kind': 'rfcomm-rx', 'data': d.hex()})

        def extra(m, ok=ok, p=p, d=d, expect=expect):
            if m[0] != norm(expect):
                ctx.disagree('RFCOMM_Frame.from_bytes', {'data': d[:12].hex(), 'len': len(d)}, repr(m[0])[:400], repr(norm(expect))[:400])
            # the model's own canonical-form predicate must imply byte identity on the implementation
            if m[1] is True and (not ok or bytes(p) != d):
                ctx.disagree('frame_canonical but not byte-identical', {'data': d[:12].hex(), 'len': len(d)}, True, False)
        B.add('(' + FRAME_OBS.format(f'frame_parse {cb(d)}') + f', frame_canonical {cb(d)})',
              SKIP, 'RFCOMM_Frame.from_bytes', {'data': d[:12].hex(), 'len': len(d)}, extra=extra)
    # ---- multiplexer commands
    for _ in range(ctx.n(60, 1000)):
        t = rng.choice([0x20, 0x38, 0x28, 0x08, 0x04, 0x24, 0x10, rng.below(64)])
        cr = rng.below(2)
        n = rng.choice([0, 1, 2, 8, 126, 127, 128, 129, 200, 300])
        v = fill(rng, n)
        b = rfcomm.RFCOMM_Frame.make_mcc(t, cr, v)
        ok, r = attempt(rfcomm.RFCOMM_Frame.parse_mcc, b)
        ctx.case(('mcc', t, cr, n), n > 127)
        ctx.count('rfcomm.mcc.value.' + ('2-octet' if n > 127 else '1-octet'))
        if not ok or (r[0], bool(r[1]), bytes(r[2])) != (t, bool(cr), v):
            ctx.violation(f'rfcomm:MCC:len{n}', f'MCC type={t} c/r={cr} with {n} value octets does not parse back',
                          {'kind': 'mcc', 'type': t, 'cr': cr, 'value': v.hex()})
        B.add(f'(dg (mcc_bytes {t} {cr} {cb(v)}), match mcc_parse (mcc_bytes {t} {cr} {cb(v)}) with '
              f'Some (t, c, v) => Some (t, c, dg v) | None => None end)',
              (dg(b), some((r[0], bool(r[1]), dg(r[2]))) if ok else None), 'RFCOMM MCC value', {'case': [t, cr, n]})
    for _ in range(ctx.n(60, 1000)):
        t = rng.below(64)
        cr = rng.below(2)
        n = rng.choice([0, 1, 8, 127, 128, 200, 300])
        v = fill(rng, n)
        two = n > 127 or rng.chance(1, 8)
        ln = bytes([(n & 0x7F) << 1, n >> 7]) if two else bytes([(n << 1) | 1])
        d = bytes([(t << 2) | (cr << 1) | 1]) + ln + v       # TS 07.10 5.4.6.1 layout
        kind = rng.below(8)
        if kind == 0:
            d = d[:rng.below(len(d) + 1)]
        ok, r = attempt(rfcomm.RFCOMM_Frame.parse_mcc, d)
        expect = None
        if ok:
            expect = some((r[0], bool(r[1]), dg(r[2]), dg(rfcomm.RFCOMM_Frame.make_mcc(r[0], int(r[1]), bytes(r[2])))))
        wellformed = kind != 0 and (n > 127) == two
        ctx.case(('mcc-rx', d), two)
        ctx.count('rfcomm.mcc.bytes')
        if wellformed and (not ok or rfcomm.RFCOMM_Frame.make_mcc(r[0], int(r[1]), bytes(r[2])) != d):
            ctx.violation(f'rfcomm:MCC:len{n}', f'well-formed MCC {d[:4].hex()}.. ({n} value octets) ' +
                          ('is rejected' if not ok else f'parses to {len(r[2])} value octets and re-serialises differently'),
                          {'kind': 'mcc-rx', 'data': d.hex()})
        B.add(f'match mcc_parse {cb(d)} with Some (t, c, v) => Some (t, c, dg v, dg (mcc_bytes t (bool_z c) v)) | None => None end',
              expect, 'RFCOMM parse_mcc', {'data': d[:8].hex(), 'len': len(d)})
    # ---- PN / MSC
    PN = ['dlci', 'cl', 'priority', 'ack_timer', 'max_frame_size', 'max_retransmissions', 'initial_credits']
    for _ in range(ctx.n(60, 800)):
        p = [rng.choice([0, 1, 63, 255]), rng.choice([0, 0xE0, 0xF0, 255]), rng.below(256), rng.below(256),
             rng.choice([0, 1, 127, 128, 255, 256, 1000, 65535]), rng.below(256), rng.choice([0, 1, 7, rng.below(8)])]
        obj = rfcomm.RFCOMM_MCC_PN(*p)
        b = bytes(obj)
        q = rfcomm.RFCOMM_MCC_PN.from_bytes(b + rng.bytes(rng.below(2)))
        got = [getattr(q, n) for n in PN]
        ctx.case(('pn', tuple(p)), p[4] > 255)
        ctx.count('rfcomm.pn.value')
        if got != p or not (q == obj):
            ctx.violation('rfcomm:RFCOMM_MCC_PN:' + ','.join(n for n, g, w in zip(PN, got, p) if g != w),
                          f'PN{tuple(p)} parses back as {got}', {'kind': 'pn', 'fields': p})
        pl = '[' + '; '.join(map(str, p)) + ']'
        B.add(f'(pn_bytes {pl}, pn_parse (pn_bytes {pl}))', (list(b), some(got)), 'RFCOMM_MCC_PN', {'fields': p})
    for _ in range(ctx.n(40, 600)):
        d = rng.bytes(rng.choice([8, 8, 8, 9, 7, 3]))
        ok, q = attempt(rfcomm.RFCOMM_MCC_PN.from_bytes, d)
        expect = None
        if ok:
            expect = some(([getattr(q, n) for n in PN], list(bytes(q))))
            if len(d) == 8 and d[7] < 8 and bytes(q) != d:
                ctx.violation('rfcomm:RFCOMM_MCC_PN:bytes', f'{d.hex()} re-serialises as {bytes(q).hex()}', {'kind': 'pn-rx', 'data': d.hex()})
        ctx.case(('pn-rx', d), ok)
        ctx.count('rfcomm.pn.bytes')
        B.add(f'match pn_parse {cb(d)} with Some p => Some (p, pn_bytes p) | None => None end', expect,
              'RFCOMM_MCC_PN.from_bytes', {'data': d.hex()})
    MSC = ['dlci', 'fc', 'rtc', 'rtr', 'ic', 'dv']
    for dlci in (0, 1, 2, 31, 62, 63):
        for bits in range(32):
            p = [dlci] + [(bits >> k) & 1 for k in range(5)]
            obj = rfcomm.RFCOMM_MCC_MSC(*p)
            b = bytes(obj)
            q = rfcomm.RFCOMM_MCC_MSC.from_bytes(b)
            got = [getattr(q, n) for n in MSC]
            ctx.case(('msc', tuple(p)), bits != 0)
            ctx.count('rfcomm.msc.value')
            if got != p or not (q == obj):
                ctx.violation('rfcomm:RFCOMM_MCC_MSC:' + ','.join(n for n, g, w in zip(MSC, got, p) if g != w),
                              f'MSC{tuple(p)} parses back as {got}', {'kind': 'msc', 'fields': p})
            B.add(f'(msc_bytes {cb(p)}, msc_parse (msc_bytes {cb(p)}))', (list(b), some(got)), 'RFCOMM_MCC_MSC', {'fields': p})
    for _ in range(ctx.n(40, 600)):
        d = rng.bytes(rng.choice([2, 2, 3, 1]))
        ok, q = attempt(rfcomm.RFCOMM_MCC_MSC.from_bytes, d)
        expect = some(([getattr(q, n) for n in MSC], list(bytes(q)))) if ok else None
        if ok and len(d) == 2 and d[0] & 3 == 3 and d[1] & 1 and not d[1] & 0x30 and bytes(q) != d:
            ctx.violation('rfcomm:RFCOMM_MCC_MSC:bytes', f'{d.hex()} re-serialises as {bytes(q).hex()}', {'kind': 'msc-rx', 'data': d.hex()})
        ctx.case(('msc-rx', d), ok)
        ctx.count('rfcomm.msc.bytes')
        B.add(f'match msc_parse {cb(d)} with Some p => Some (p, msc_bytes p) | None => None end', expect,
              'RFCOMM_MCC_MSC.from_bytes', {'data': d.hex()})
    # the FCS itself: bumble's table-driven compute_fcs against the bitwise CRC of the model
    for _ in range(ctx.n(40, 600)):
        d = rng.bytes(rng.choice([0, 1, 2, 3, 4, 10]))
        want = rfcomm.compute_fcs(d)
        ctx.case(('fcs', d), len(d) > 0)
        ctx.count('rfcomm.fcs')
        B.add(f'(compute_fcs {cb(d)}, fcs_spec {cb(d)})', (want, want), 'compute_fcs', {'data': d.hex()})


def rfcomm_frame_oracle(t, cr, dlci, pf, info, credits):
    """construct -> bytes -> parse -> same fields and same bytes"""
    from bumble import rfcomm
    n = len(info) - (1 if credits else 0)
    sig = f'rfcomm:RFCOMM_Frame:len{n}' + ('+credits' if credits else '')
    ok, f = attempt(rfcomm.RFCOMM_Frame, rfcomm.FrameType(t), cr, dlci, pf, info, credits)
    if not ok:
        return None
    b = bytes(f)
    ok2, p = attempt(rfcomm.RFCOMM_Frame.from_bytes, b)
    name = rfcomm.FrameType(t).name
    if not ok2:
        return sig, f'{name} payload {n} octets: own bytes rejected ({p})'
    fl, inf = frame_fields(p)
    if (fl, inf) != ([t, cr, dlci, pf], info):
        return sig, f'{name} c/r={cr} dlci={dlci} p/f={pf} payload {n} octets parses back as {fl} with {len(inf)} octets'
    if bytes(p) != b:
        return sig, f'{name} p/f={pf} payload {n} octets: {b[:5].hex()}.. re-serialises as {bytes(p)[:5].hex()}..'
    return None



# ----------------------------------------------------------------------------- SDP data elements
# neutral trees: ('nil',) ('u', size, v) ('s', size, v) ('uuid', bytes_le) ('text', bytes) ('bool', b)
# ('seq', [..]) ('alt', [..]) ('url', str)
def sdp_build(t):
    from bumble import sdp, core
    DE = sdp.DataElement
    k = t[0]
    if k == 'nil':
        return DE.nil()
    if k == 'u':
        return DE.unsigned_integer(t[2], t[1])
    if k == 's':
        return DE.signed_integer(t[2], t[1])
    if k == 'uuid':
        u = core.UUID.__new__(core.UUID)        # a UUID value that does not go through the registry
        u.uuid_bytes = bytes(t[1])
        u.name = None
        return DE.uuid(u)
    if k == 'text':
        return DE.text_string(bytes(t[1]))
    if k == 'bool':
        return DE.boolean(t[1])
    if k == 'seq':
        return DE.sequence([sdp_build(x) for x in t[1]])
    if k == 'alt':
        return DE.alternative([sdp_build(x) for x in t[1]])
    if k == 'url':
        return DE.url(t[1])
    raise ValueError(k)


def sdp_term(t):
    k = t[0]
    if k == 'nil':
        return 'ENil'
    if k == 'u':
        return f'(EUInt {cz(t[1])} {cz(t[2])})'
    if k == 's':
        return f'(ESInt {cz(t[1])} {cz(t[2])})'
    if k == 'uuid':
        return f'(EUuid {cb(t[1])})'
    if k == 'text':
        return f'(EText {cb(t[1])})'
    if k == 'bool':
        return f'(EBool {cbool(t[1])})'
    if k in ('seq', 'alt'):
        return f'({"ESeq" if k == "seq" else "EAlt"} [' + '; '.join(sdp_term(x) for x in t[1]) + '])'
    if k == 'url':
        return f'(EUrl {cb(t[1].encode("utf8"))})'
    raise ValueError(k)


def sdp_sig_tree(t):
    k = t[0]
    if k == 'nil':
        return [0]
    if k == 'u':
        return [1, t[1], t[2]]
    if k == 's':
        return [2, t[1], t[2]]
    if k == 'uuid':
        return [3, len(t[1]), dgst(t[1])]
    if k == 'text':
        return [4, len(t[1]), dgst(t[1])]
    if k == 'bool':
        return [5, 1 if t[1] else 0]
    if k in ('seq', 'alt'):
        out = [6 if k == 'seq' else 7, len(t[1])]
        for x in t[1]:
            out += sdp_sig_tree(x)
        return out
    if k == 'url':
        b = t[1].encode('utf8')
        return [8, len(b), dgst(b)]
    raise ValueError(k)


def sdp_sig_elem(e):
    """signature of a real DataElement (same layout as Model.CodecsSdp.elem_sig)"""
    from bumble import sdp
    DE = sdp.DataElement
    ty = int(e.type)
    if ty == DE.NIL:
        return [0]
    if ty in (DE.UNSIGNED_INTEGER, DE.SIGNED_INTEGER):
        return [ty, e.value_size, int(e.value)]
    if ty == DE.UUID:
        b = bytes(e.value)
        return [3, len(b), dgst(b)]
    if ty == DE.TEXT_STRING:
        return [4, len(e.value), dgst(bytes(e.value))]
    if ty == DE.BOOLEAN:
        return [5, 1 if e.value else 0]
    if ty in (DE.SEQUENCE, DE.ALTERNATIVE):
        out = [ty, len(e.value)]
        for x in e.value:
            out += sdp_sig_elem(x)
        return out
    if ty == DE.URL:
        b = e.value.encode('utf8')
        return [8, len(b), dgst(b)]
    return [9, ty, len(e.value), dgst(bytes(e.value))]


def sdp_spec_encode(t):
    """Vol 3 Part B 3.2/3.3 data element encoding with the minimal size form, written
    independently of bumble (used to lay out received elements)"""
    k = t[0]
    def var(ty, data):
        n = len(data)
        if n <= 0xFF:
            return bytes([ty << 3 | 5, n]) + data
        if n <= 0xFFFF:
            return bytes([ty << 3 | 6]) + struct.pack('>H', n) + data
        return bytes([ty << 3 | 7]) + struct.pack('>I', n) + data
    if k == 'nil':
        return b'\x00'
    if k in ('u', 's'):
        idx = {1: 0, 2: 1, 4: 2, 8: 3}[t[1]]
        return bytes([(1 if k == 'u' else 2) << 3 | idx]) + int(t[2]).to_bytes(t[1], 'big', signed=(k == 's'))
    if k == 'uuid':
        idx = {2: 1, 4: 2, 16: 4}[len(t[1])]
        return bytes([3 << 3 | idx]) + bytes(t[1])[::-1]
    if k == 'text':
        return var(4, bytes(t[1]))
    if k == 'bool':
        return bytes([5 << 3, 1 if t[1] else 0])
    if k == 'seq':
        return var(6, b''.join(sdp_spec_encode(x) for x in t[1]))
    if k == 'alt':
        return var(7, b''.join(sdp_spec_encode(x) for x in t[1]))
    if k == 'url':
        return var(8, t[1].encode('utf8'))
    raise ValueError(k)


def sdp_fresh(e):
    """a copy of a parsed element without any _bytes cache (forces the serialiser to run)"""
    from bumble import sdp
    DE = sdp.DataElement
    if e.type in (DE.SEQUENCE, DE.ALTERNATIVE):
        return DE(e.type, [sdp_fresh(x) for x in e.value], e.value_size)
    return DE(e.type, e.value, e.value_size)


def sdp_first_diff(a, b, path='value'):
    """name of the first differing part of two real DataElements"""
    if int(a.type) != int(b.type):
        return path + '.type'
    if a.value_size != b.value_size:
        return path + '.value_size'
    from bumble import sdp
    if a.type in (sdp.DataElement.SEQUENCE, sdp.DataElement.ALTERNATIVE):
        if len(a.value) != len(b.value):
            return path + '.count'
        for i, (x, y) in enumerate(zip(a.value, b.value)):
            d = sdp_first_diff(x, y, f'{path}[{i}]')
            if d:
                return d
        return None
    if a.type == sdp.DataElement.UUID:
        return None if bytes(a.value) == bytes(b.value) else path + '.uuid-width'
    return None if a.value == b.value else path


SDP_TYPE_NAMES = {'nil': 'NIL', 'u': 'UNSIGNED_INTEGER', 's': 'SIGNED_INTEGER', 'uuid': 'UUID', 'text': 'TEXT_STRING',
                  'bool': 'BOOLEAN', 'seq': 'SEQUENCE', 'alt': 'ALTERNATIVE', 'url': 'URL'}


def sdp_gen_leaf(rng, big=False):
    k = rng.choice(['nil', 'u', 'u', 's', 's', 'uuid', 'text', 'bool', 'url'])
    if k == 'nil':
        return ('nil',)
    if k == 'u':
        sz = rng.choice([1, 2, 4, 8])
        return ('u', sz, rng.choice([0, 1, 255, 256, 256 ** sz - 1, 256 ** sz // 2, rng.below(256 ** sz)]) % 256 ** sz)
    if k == 's':
        sz = rng.choice([1, 2, 4, 8])
        h = 256 ** sz // 2
        return ('s', sz, rng.choice([0, 1, -1, h - 1, -h, rng.below(2 * h) - h]))
    if k == 'uuid':
        n = rng.choice([2, 2, 4, 16, 16])
        if n == 16 and rng.chance(1, 2):       # a 128-bit form of a 16-bit (possibly registered) UUID
            from bumble import core
            return ('uuid', bytes(core.UUID.BASE_UUID) + bytes([rng.choice([0x00, 0x01, 0x18, rng.below(256)]), rng.choice([0x11, 0x18, 0x28, rng.below(256)]), 0, 0]))
        return ('uuid', rng.bytes(n))
    if k == 'text':
        n = rng.choice([0, 1, 2, 17, 254, 255, 256, 257] if big else [0, 1, 2, 5, 17])
        return ('text', fill(rng, n))
    if k == 'bool':
        return ('bool', rng.chance(1, 2))
    n = rng.choice([0, 1, 20, 255, 256] if big else [0, 1, 9])
    alphabet = ['a', 'z', '/', ':', '.', 'é', '\u20ac', '\U0001F600']
    s_ = ''.join(rng.choice(alphabet) for _ in range(n))
    return ('url', s_)


def sdp_gen_tree(rng, depth, big=False):
    if depth <= 0 or rng.chance(2, 5):
        return sdp_gen_leaf(rng, big)
    k = rng.choice(['seq', 'seq', 'alt'])
    return (k, [sdp_gen_tree(rng, depth - 1, big) for _ in range(rng.choice([0, 1, 2, 2, 3, 5]))])


def sdp_value_oracle(tree):
    """construct -> bytes -> parse -> equal (dataclass equality and exact value identity),
    parse -> bytes -> same bytes.  Returns None or (signature, description)."""
    from bumble import sdp
    top = SDP_TYPE_NAMES[tree[0]]
    e = sdp_build(tree)
    ok, b = attempt(lambda: bytes(e))
    if not ok:
        return (f'sdp:DataElement.{top}:serialise', f'{top} does not serialise: {b}')
    size = len(b)
    ok, p = attempt(sdp.DataElement.from_bytes, b)
    if not ok:
        return (f'sdp:DataElement.{top}:size{size}', f'{top} of {size} octets is rejected by the parser: {p}')
    d = sdp_first_diff(p, e)
    if d or not (p == e):
        return (f'sdp:DataElement.{top}:{d or "eq"}', f'{top} ({size} octets) parses back different at {d}')
    if bytes(p) != b or bytes(sdp_fresh(p)) != b:
        return (f'sdp:DataElement.{top}:bytes', f'{top} ({size} octets) re-serialises differently')
    return None


def sec_sdp(ctx, B):
    from bumble import sdp
    rng = ctx.rng.fork('sdp')
    maxd = sdp._MAX_DATA_ELEMENT_NESTING
    trees = []
    # every type at its size boundaries
    for sz in (1, 2, 4, 8):
        for v in (0, 1, 256 ** sz - 1):
            trees.append(('u', sz, v))
        for v in (0, -1, 256 ** sz // 2 - 1, -(256 ** sz // 2)):
            trees.append(('s', sz, v))
    trees += [('nil',), ('bool', True), ('bool', False), ('uuid', bytes([0x34, 0x12])), ('uuid', bytes(range(4))),
              ('uuid', bytes(range(16)))]
    for n in (0, 1, 254, 255, 256, 257, 65535, 65536, 65537):
        trees.append(('text', fill(rng, n)))
        if n < 65535 or not ctx.quick():
            trees.append(('url', 'h' * n))
        if n >= 3 and (n < 65535 or not ctx.quick() or n == 65536):
            # a sequence whose body is exactly n octets: one text string filling it
            inner = n - 2 if n - 2 <= 255 else (n - 3 if n - 3 <= 65535 else n - 5)
            trees.append(('seq', [('text', fill(rng, inner))]))
            trees.append(('alt', [('text', fill(rng, inner))]))
    # nesting: chains of depth 1..maxd+1
    for d in (1, 2, 3, maxd - 1, maxd, maxd + 1):
        t = ('u', 1, 7)
        for i in range(d):
            t = ('seq' if i % 3 else 'alt', [t]) if i % 2 else ('seq', [t, ('nil',)])
        trees.append(t)
    for _ in range(ctx.n(150, 4000)):
        trees.append(sdp_gen_tree(rng, rng.choice([1, 2, 2, 3, 4]), big=rng.chance(1, 6)))
    for tree in trees:
        e = sdp_build(tree)
        ok, b = attempt(lambda: bytes(e))
        expect = (None, (0, [], 0, (0, 0), False))
        depth_ok = True
        if ok:
            okp, p = attempt(sdp.DataElement.from_bytes, b)
            if okp:
                expect = (some(dg(b)), (1, sdp_sig_elem(p), len(b), dg(bytes(p)), True))
            else:
                expect = (some(dg(b)), (0, [], 0, (0, 0), False))
                depth_ok = False
        bad = sdp_value_oracle(tree)
        nest = _tree_depth(tree)
        if bad and nest <= maxd:
            ctx.violation(bad[0], bad[1], {'kind': 'sdp-value', 'tree': _tree_json(tree)})
        ctx.case(('sdp', sdp_term(tree)[:4000]), tree[0] in ('seq', 'alt', 'text', 'url'),
                 {'codec': 'SDP DataElement', 'element': sdp_term(tree)[:200], 'octets': len(b) if ok else None} if len(ctx.samples) < 4 and tree[0] == 'seq' else None)
        ctx.count('sdp.value.' + SDP_TYPE_NAMES[tree[0]])
        ctx.count(f'sdp.value.nesting.{min(nest, maxd + 1) if nest > 4 else nest}')
        if ok:
            ctx.count('sdp.value.size-form.' + ('8' if len(b) <= 257 else '16' if len(b) <= 65538 else '32') if tree[0] in ('text', 'url', 'seq', 'alt') else 'sdp.value.size-form.fixed')
        B.add(f'encode_sig {sdp_term(tree)} sdp_max_nesting', expect, 'SDP DataElement value', {'element': sdp_term(tree)[:300]})
    # received elements: laid out by the specification (minimal forms), then non-canonical,
    # truncated, over-long and random octets
    rx = []
    for tree in trees[:40] + [sdp_gen_tree(rng, 3) for _ in range(ctx.n(60, 1500))]:
        if _tree_depth(tree) > maxd:
            continue
        rx.append((sdp_spec_encode(tree) + rng.bytes(rng.choice([0, 0, 1, 3])), True))
    for _ in range(ctx.n(150, 4000)):
        tree = sdp_gen_tree(rng, 2)
        d = bytearray(sdp_spec_encode(tree))
        kind = rng.below(8)
        if kind == 0 and d:
            d = d[:rng.below(len(d))]
        elif kind == 1 and d:
            d[rng.below(len(d))] = rng.below(256)
        elif kind == 2:
            ty = rng.choice([0, 1, 2, 3, 4, 5, 6, 7, 8, 9, 31])
            d = bytearray([ty << 3 | rng.below(8)]) + rng.bytes(rng.choice([0, 1, 2, 4, 5, 9, 17]))
        elif kind == 3:
            # a non-minimal size form around a small body
            body = rng.bytes(rng.below(6))
            ty = rng.choice([4, 6, 7, 8, 1, 3, 5, 0])
            form = rng.choice([5, 6, 7])
            szb = {5: bytes([len(body)]), 6: struct.pack('>H', len(body)), 7: struct.pack('>I', len(body))}[form]
            d = bytearray([ty << 3 | form]) + szb + body
        elif kind == 4:
            d = bytearray(rng.bytes(rng.choice([0, 1, 2, 3, 6, 12])))
        rx.append((bytes(d), False))
    for d, spec_form in rx:
        try:
            parser = sdp.DataElementParser(d)
            p = parser.parse_next()
            ok = True
        except UnicodeDecodeError:
            ctx.count('sdp.bytes.url-not-utf8')      # outside the model (URL octets are modelled as valid UTF-8)
            continue
        except Exception as ex:  # noqa: BLE001
            ok, p = False, type(ex).__name__
        if ok and _has_url_roundtrip_issue(p):
            ctx.count('sdp.bytes.url-not-utf8')
            continue
        ctx.case(('sdp-rx', d), ok)
        ctx.count('sdp.bytes.' + ('accepted' if ok else 'rejected') + ('.spec-form' if spec_form else ''))
        expect = SKIP
        if ok:
            cached = bytes(p)
            exp_core = (1, sdp_sig_elem(p), parser.offset, dg(cached))
            fresh_ok, fresh = attempt(lambda: bytes(sdp_fresh(p)))
            if spec_form:
                top = p.type.name
                if cached != d[:len(cached)] or not fresh_ok or fresh != cached:
                    ctx.violation(f'sdp:DataElement.{top}:bytes', f'well-formed {top} element of {len(cached)} octets does not re-serialise identically',
                                  {'kind': 'sdp-rx', 'data': d.hex()})
        else:
            exp_core = (0, [], 0, (0, 0))

        def extra(m, exp_core=exp_core, ok=ok, p=p, d=d, spec_form=spec_form):
            if m[:len(norm(exp_core))] != norm(exp_core):
                ctx.disagree('SDP DataElementParser', {'data': d[:40].hex(), 'len': len(d)}, repr(m)[:400], repr(norm(exp_core))[:400])
                return
            canon = m[-1]
            if spec_form and ok and canon is not True:
                ctx.disagree('specification-form element not canonical for the model', {'data': d[:40].hex()}, canon, True)
            if ok and canon is True:
                f_ok, f = attempt(lambda: bytes(sdp_fresh(p)))
                if not f_ok or f != bytes(p):
                    ctx.disagree('canonical for the model but the uncached serialiser differs', {'data': d[:40].hex()}, True, False)
        B.add(f'presult_sig (from_bytes sdp_max_nesting {cb(d)})', SKIP, 'SDP parse', {'data': d[:40].hex()}, extra=extra)


def _has_url_roundtrip_issue(e):
    return False


def _tree_depth(t):
    if t[0] in ('seq', 'alt'):
        return 1 + max([_tree_depth(x) for x in t[1]] + [0])
    return 0


def _tree_json(t):
    if t[0] in ('seq', 'alt'):
        return [t[0], [_tree_json(x) for x in t[1]]]
    if t[0] in ('uuid', 'text'):
        b = bytes(t[1])
        if len(b) > 64 and len(set(b[4:-4])) == 1:
            return [t[0], {'fill': b[4], 'len': len(b), 'head': b[:4].hex(), 'tail': b[-4:].hex()}]
        return [t[0], b.hex()]
    return list(t)


def _tree_unjson(j):
    if j[0] in ('seq', 'alt'):
        return (j[0], [_tree_unjson(x) for x in j[1]])
    if j[0] in ('uuid', 'text'):
        if isinstance(j[1], dict):
            return (j[0], bytes.fromhex(j[1]['head']) + bytes([j[1]['fill']]) * (j[1]['len'] - 8) + bytes.fromhex(j[1]['tail']))
        return (j[0], bytes.fromhex(j[1]))
    return tuple(j)

def run(ctx):
    B = Batch(ctx)
    for sec in (sec_ertm, sec_l2cap_misc, sec_rfcomm, sec_sdp):
        sec(ctx, B)
        ctx.log(sec.__name__, 'generated', len(B.items), 'model expressions')
        B.run()
        ctx.log(sec.__name__, 'compared')
