"""C03 — one HCI command outstanding; every command is answered exactly once; pending
procedures conclude.

(A) static: tools/translate/c03_skeleton.py regenerates coq/Gen/C03Skeleton.v (dispatch and
    handler skeletons of bumble/controller.py), Props/C03.v re-checks `wf_ctrl` on it.
    dynamic: every registered command class (and unregistered opcodes) x generated parameters
    x controller situations, sent to a REAL bumble.controller.Controller; the Command
    Complete / Command Status events are counted per opcode (oracle) and compared with the
    outcome set the skeleton model allows for that opcode (correspondence).
(B) N asyncio tasks issue commands through a REAL bumble.host.Host against a controller
    behind two FIFOs drained on seeded loop turns; the boundary trace must be accepted by
    Model/HostCmd.v with the same observations; oracle over the trace alone.
(C) pending procedures on REAL controllers joined by a LocalLink: peer present / absent /
    gone / cancelled; oracle: the completion event arrives.
All scenarios run on an event loop whose clock is frozen: timers never fire, the loop is
advanced only by `await asyncio.sleep(0)` rounds, nothing depends on wall-clock time.
"""
import asyncio
import json
import logging
import os

from lib.verif import coq_list, coq_z

PROP_FILES = ['Props/C03.v']
LEVEL = 'proof'

logging.disable(logging.CRITICAL)

CORPUS = os.path.join(os.path.dirname(os.path.dirname(os.path.dirname(os.path.abspath(__file__)))), 'corpus', 'C03')

ADDR_CUT = 'C0:00:00:00:00:01'
ADDR_P2 = 'C0:00:00:00:00:02'
ADDR_P3 = 'C0:00:00:00:00:03'
ADDR_ABSENT = 'C0:00:00:00:00:7F'
RND_CUT = 'D0:00:00:00:00:01'
RND_P2 = 'D0:00:00:00:00:02'


# ============================================================================= event loop
def run_async(coro_fn, *args):
    """Run one scenario on a fresh loop with a frozen clock.  Returns (result, callback_errors)."""
    loop = asyncio.new_event_loop()
    loop.time = lambda: 1000.0          # timers scheduled for later never become due
    errors = []
    loop.set_exception_handler(lambda l, c: errors.append(type(c.get('exception')).__name__))
    try:
        asyncio.set_event_loop(loop)
        result = loop.run_until_complete(coro_fn(*args))
        # cancel what is left so that closing the loop is silent
        for t in asyncio.all_tasks(loop):
            t.cancel()
        loop.run_until_complete(asyncio.sleep(0))
        return result, errors
    finally:
        asyncio.set_event_loop(None)
        loop.close()


async def settle(rounds=24):
    for _ in range(rounds):
        await asyncio.sleep(0)


# ============================================================================= raw HCI observation
def reply_of(packet: bytes):
    """(kind, opcode, num_hci_command_packets, status) of a Command Complete / Command Status
    event, else None.  Decoded from the bytes, independently of bumble's parser."""
    if len(packet) >= 6 and packet[0] == 0x04:
        if packet[1] == 0x0E and packet[2] >= 3:
            status = packet[6] if len(packet) > 6 else None
            return ('CC', packet[4] | (packet[5] << 8), packet[3], status)
        if packet[1] == 0x0F and packet[2] >= 4 and len(packet) >= 7:
            return ('CS', packet[5] | (packet[6] << 8), packet[4], packet[3])
    return None


def event_code(packet: bytes):
    """(event code, LE subevent code or None)"""
    if len(packet) >= 3 and packet[0] == 0x04:
        if packet[1] == 0x3E and len(packet) >= 4:
            return (0x3E, packet[3])
        return (packet[1], None)
    return None


class Sink:
    def __init__(self):
        self.packets = []

    def on_packet(self, data):
        self.packets.append(bytes(data))


# ============================================================================= parameter generation
def _spec_size(spec):
    """number of bytes of a fixed-size field spec, or a tag for the variable ones"""
    if isinstance(spec, dict):
        if 'size' in spec:
            return spec['size']
        if 'parser' in spec:
            p = spec['parser']
            qn = getattr(p, '__qualname__', '')
            if 'type_spec' in qn:
                cells = dict(zip(p.__code__.co_freevars, [c.cell_contents for c in p.__closure__]))
                return cells['size']
            if qn.endswith('parse_length_prefixed_bytes'):
                return 'v'
            raise ValueError(f'unknown field parser {qn}')
    if spec in ('*', 'v'):
        return spec
    if spec in ('>2', -2):
        return 2
    if spec == '>4':
        return 4
    if spec == -1:
        return 1
    if isinstance(spec, int):
        return spec
    if callable(spec):
        qn = getattr(spec, '__qualname__', '')
        if qn in ('Address.parse_address', 'Address.parse_random_address'):
            return 'addr'
        if qn == 'Address.parse_address_preceded_by_type':
            return 'addr_typed'
        if qn == 'CodingFormat.parse_from_bytes':
            return 5
        if qn.endswith('<lambda>'):
            return 'addr'          # the two random-address lambdas of hci.py (6 bytes)
        raise ValueError(f'unknown field parser {qn}')
    raise ValueError(f'unknown field spec {spec!r}')


def gen_int(rng, size):
    top = (1 << (8 * size)) - 1
    return rng.choice([0, 0, 1, 1, 2, 3, top, top - 1, rng.below(top + 1), rng.below(256), rng.below(8)])


def gen_field(rng, name, spec, env, nxt):
    size = _spec_size(spec)
    if size == 'addr' or size == 'addr_typed':
        from bumble import hci
        return bytes(hci.Address(rng.choice(env['addresses'])))
    if size == 'v':
        n = rng.choice([0, 0, 1, 5, 31, rng.below(40)])
        return bytes([n]) + rng.bytes(n)
    if size == '*':
        return rng.bytes(rng.choice([0, 0, 1, 4, rng.below(24)]))
    ov = env.get('overrides') or {}
    if name in ov and isinstance(size, int) and size <= 4:
        return (rng.choice(ov[name]) & ((1 << (8 * size)) - 1)).to_bytes(size, 'little')
    if size == 1 and nxt == 'addr_typed':
        return bytes([rng.choice([0, 0, 1, 1, 2, 3])])      # a valid AddressType
    if size == 2 and 'handle' in name:
        v = rng.choice(env['handles'] + [0, 1, 2, 3, 0x0123, 0x0EFF, 0xFFFF])
        return v.to_bytes(2, 'little')
    if isinstance(size, int) and size <= 4:
        return gen_int(rng, size).to_bytes(size, 'little')
    if isinstance(size, int):
        return rng.choice([bytes(size), bytes([0xFF]) * size, rng.bytes(size)])
    raise ValueError(f'unhandled size {size!r}')


def _gen_custom(rng, cls, env):
    """the two classes of hci.py that parse their parameters by hand (one block per PHY bit)"""
    from bumble import hci
    phys = rng.choice([1, 1, 2, 3, 4, 5, 7, 0])
    nphy = bin(phys).count('1')
    if cls.__name__ == 'HCI_LE_Extended_Create_Connection_Command':
        out = bytes([rng.below(2), rng.below(4), rng.below(4)]) + bytes(hci.Address(rng.choice(env['addresses']))) + bytes([phys])
        for _ in range(nphy):
            out += b''.join(gen_int(rng, 2).to_bytes(2, 'little') for _ in range(8))
        return out
    if cls.__name__ == 'HCI_LE_Set_Extended_Scan_Parameters_Command':
        out = bytes([rng.below(4), rng.below(4), phys])
        for _ in range(nphy):
            out += bytes([rng.below(2)]) + gen_int(rng, 2).to_bytes(2, 'little') + gen_int(rng, 2).to_bytes(2, 'little')
        return out
    raise ValueError(f'{cls.__name__} parses its parameters by hand: no generator')


def gen_command_bytes(rng, cls, env):
    """a command packet of the given registered class with in-range / boundary parameters"""
    if 'from_parameters' in cls.__dict__:
        out = _gen_custom(rng, cls, env)
        return bytes([0x01, cls.op_code & 0xFF, cls.op_code >> 8, len(out)]) + out
    fields = list(cls.fields)
    out = bytearray()
    for i, f in enumerate(fields):
        if isinstance(f, list):
            count = rng.choice([0, 1, 1, 2, 3])
            out.append(count)
            for _ in range(count):
                for j, (n, s) in enumerate(f):
                    nxt = _spec_size(f[j + 1][1]) if j + 1 < len(f) else None
                    out += gen_field(rng, n, s, env, nxt)
            continue
        n, s = f
        nxt = None
        if i + 1 < len(fields) and not isinstance(fields[i + 1], list):
            nxt = _spec_size(fields[i + 1][1])
        out += gen_field(rng, n, s, env, nxt)
    if len(out) > 255:
        out = out[:255]
    return bytes([0x01, cls.op_code & 0xFF, cls.op_code >> 8, len(out)]) + bytes(out)


def gen_unknown_bytes(rng, known):
    while True:
        op = rng.choice([0x0000, 0x3FFF, 0xFFFF, 0xFC01, 0x0400, rng.below(0x10000), rng.below(0x10000)])
        if op not in known:
            break
    params = rng.bytes(rng.choice([0, 0, 1, 3, rng.below(20)]))
    return bytes([0x01, op & 0xFF, op >> 8, len(params)]) + params


# ============================================================================= situations (A, C)
SITUATIONS = ['nolink', 'linknone', 'link0', 'link1', 'link1conn', 'link1conn_p', 'link2conn', 'peer_gone']


def _cmd(ctrl, command):
    ctrl.on_packet(bytes(command))


async def build_situation(name):
    """Real controllers on a real LocalLink.  Returns dict(cut, sink, link, peers, env)."""
    from bumble import hci, link as blink
    from bumble.controller import Controller

    sink = Sink()
    peers = []
    the_link = None
    if name in ('nolink', 'linknone'):
        cut = Controller('cut', host_sink=sink, public_address=ADDR_CUT)
    else:
        the_link = blink.LocalLink()
        cut = Controller('cut', host_sink=sink, link=the_link, public_address=ADDR_CUT)
    cut.random_address = hci.Address(RND_CUT)
    if name == 'linknone':
        cut.link = None
    npeers = {'link1': 1, 'link1conn': 1, 'link1conn_p': 1, 'link2conn': 2, 'peer_gone': 1}.get(name, 0)
    for i in range(npeers):
        ps = Sink()
        p = Controller(f'p{i + 2}', host_sink=ps, link=the_link, public_address=[ADDR_P2, ADDR_P3][i])
        p.random_address = hci.Address([RND_P2, 'D0:00:00:00:00:03'][i])
        p.test_sink = ps
        peers.append(p)

    def adv_params(own):
        return hci.HCI_LE_Set_Advertising_Parameters_Command(
            advertising_interval_min=0xFFFF, advertising_interval_max=0xFFFF, advertising_type=0,
            own_address_type=own, peer_address_type=0, peer_address=hci.Address.ANY,
            advertising_channel_map=7, advertising_filter_policy=0)

    def le_create(addr):
        return hci.HCI_LE_Create_Connection_Command(
            le_scan_interval=16, le_scan_window=16, initiator_filter_policy=0, peer_address_type=0,
            peer_address=hci.Address(addr, hci.Address.PUBLIC_DEVICE_ADDRESS), own_address_type=0,
            connection_interval_min=6, connection_interval_max=6, max_latency=0, supervision_timeout=10,
            min_ce_length=0, max_ce_length=0)

    if name in ('link1conn', 'link2conn', 'peer_gone'):
        _cmd(cut, le_create(ADDR_P2))
        _cmd(peers[0], adv_params(0))
        _cmd(peers[0], hci.HCI_LE_Set_Advertising_Enable_Command(advertising_enable=1))
        await settle()
        _cmd(peers[0], hci.HCI_LE_Set_Advertising_Enable_Command(advertising_enable=0))
        await settle()
    if name == 'link1conn_p':
        _cmd(peers[0], le_create(ADDR_CUT))
        _cmd(cut, adv_params(0))
        _cmd(cut, hci.HCI_LE_Set_Advertising_Enable_Command(advertising_enable=1))
        await settle()
        _cmd(cut, hci.HCI_LE_Set_Advertising_Enable_Command(advertising_enable=0))
        await settle()
    if name == 'link2conn':
        _cmd(cut, hci.HCI_Create_Connection_Command(
            bd_addr=hci.Address(ADDR_P3, hci.Address.PUBLIC_DEVICE_ADDRESS), packet_type=0xCC18,
            page_scan_repetition_mode=0, reserved=0, clock_offset=0, allow_role_switch=1))
        await settle()
        _cmd(peers[1], hci.HCI_Accept_Connection_Request_Command(
            bd_addr=hci.Address(ADDR_CUT, hci.Address.PUBLIC_DEVICE_ADDRESS), role=1))
        await settle()
        _cmd(cut, hci.HCI_LE_Set_CIG_Parameters_Command(
            cig_id=1, sdu_interval_c_to_p=10000, sdu_interval_p_to_c=10000, worst_case_sca=0, packing=0,
            framing=0, max_transport_latency_c_to_p=10, max_transport_latency_p_to_c=10,
            cis_id=[1, 2], max_sdu_c_to_p=[40, 40], max_sdu_p_to_c=[40, 40], phy_c_to_p=[1, 1],
            phy_p_to_c=[1, 1], rtn_c_to_p=[1, 1], rtn_p_to_c=[1, 1]))
        await settle()
    if name == 'peer_gone':
        the_link.remove_controller(peers[0])
    handles = sorted({c.handle for c in list(cut.le_connections.values()) + list(cut.classic_connections.values())}
                     | set(cut.central_cis_links) | set(cut.peripheral_cis_links))
    env = {
        'handles': handles,
        'addresses': [ADDR_P2, ADDR_P3, ADDR_ABSENT, ADDR_CUT, RND_P2, '00:00:00:00:00:00'],
    }
    sink.packets.clear()
    return {'cut': cut, 'sink': sink, 'link': the_link, 'peers': peers, 'env': env}


# ============================================================================= (A) dynamic campaign
async def _run_ctrl_case(situation, packets, burst):
    """Send the command packets to the controller under test.  Returns per command
    [escaped exception name or None, [(kind, opcode, credits, status), ...]] (replies seen
    before the next command when not burst), and for burst the whole reply list."""
    sit = await build_situation(situation)
    cut, sink = sit['cut'], sit['sink']
    per_cmd = []
    for data in packets:
        before = len(sink.packets)
        exc = None
        try:
            cut.on_packet(data)
        except Exception as e:          # noqa: the oracle says no exception may escape
            exc = type(e).__name__
        if not burst:
            await settle()
        per_cmd.append([exc, before])
    await settle()
    replies_all = [(i, reply_of(p)) for i, p in enumerate(sink.packets) if reply_of(p)]
    out = []
    for k, (exc, before) in enumerate(per_cmd):
        end = per_cmd[k + 1][1] if k + 1 < len(per_cmd) else len(sink.packets)
        if burst:
            out.append([exc, None])
        else:
            out.append([exc, [list(r) for i, r in replies_all if before <= i < end]])
    return out, [list(r) for _, r in replies_all]


def run_ctrl_case(situation, packets, burst):
    (out, allr), errors = run_async(_run_ctrl_case, situation, packets, burst)
    return out, allr, errors


def ctrl_oracle(packets, burst, out, allr):
    """None or (signature, description).  The property over observables only: every command
    packet is answered by exactly one Command Complete / Command Status event carrying its
    opcode (in order), with >= 1 credit, and no exception escapes on_packet."""
    ops = [p[1] | (p[2] << 8) for p in packets]
    for k, (exc, _) in enumerate(out):
        if exc is not None:
            return (f'A:{ops[k]:#06x}:exception', f'command {packets[k].hex()} (#{k}): {exc} escaped Controller.on_packet')
    if burst:
        got = [r[1] for r in allr]
        if got != ops:
            # name the first command whose reply is missing / extra
            for k in range(max(len(got), len(ops))):
                if k >= len(ops) or k >= len(got) or got[k] != ops[k]:
                    op = ops[k] if k < len(ops) else got[k]
                    return (f'A:{op:#06x}:burst', f'burst of {len(ops)} commands: reply opcodes {[hex(x) for x in got]} '
                                                   f'!= command opcodes {[hex(x) for x in ops]}')
    else:
        for k, (exc, rs) in enumerate(out):
            mine = [r for r in rs if r[1] == ops[k]]
            other = [r for r in rs if r[1] != ops[k]]
            if len(mine) == 0:
                return (f'A:{ops[k]:#06x}:noreply', f'command {packets[k].hex()} (#{k}): no Command Complete/Status event')
            if len(mine) > 1:
                return (f'A:{ops[k]:#06x}:replies{len(mine)}', f'command {packets[k].hex()} (#{k}): {len(mine)} reply events {mine}')
            if other:
                return (f'A:{ops[k]:#06x}:foreign', f'command {packets[k].hex()} (#{k}): reply for another opcode {other}')
    for r in allr:
        if r[2] < 1:
            return (f'A:{r[1]:#06x}:credit0', f'reply {r} grants no command credit')
    return None


def gen_ctrl_cases(ctx, classes, per_situation_rounds):
    """every class in every situation `per_situation_rounds` times, grouped in sequences"""
    rng = ctx.rng
    known = set(classes)
    cases = []
    for sname in SITUATIONS:
        for _ in range(per_situation_rounds):
            order = rng.shuffle(sorted(classes))
            i = 0
            while i < len(order):
                k = rng.choice([1, 2, 3, 4, 6])
                chunk = order[i:i + k]
                i += k
                cases.append([sname, chunk, rng.chance(1, 4), rng.chance(1, 3)])
    return cases, known


def campaign_ctrl(ctx, model_obs):
    from bumble import hci
    classes = dict(hci.HCI_Command.command_classes)
    cases, known = gen_ctrl_cases(ctx, classes, ctx.n(1, 40))
    env_static = {'handles': [1, 2, 3, 4], 'addresses': [ADDR_P2, ADDR_P3, ADDR_ABSENT, ADDR_CUT, RND_P2, '00:00:00:00:00:00']}
    rng = ctx.rng
    covered = set()
    unparseable = 0
    for sname, chunk, burst, add_unknown in cases:
        packets = []
        for op in chunk:
            data = None
            for _ in range(8):
                cand = gen_command_bytes(rng, classes[op], env_static)
                try:
                    hci.HCI_Packet.from_bytes(cand)
                    data = cand
                    break
                except Exception:
                    unparseable += 1
            if data is None:
                ctx.disagree('generator', {'class': classes[op].__name__}, 'a parseable instance', 'none in 8 attempts')
                continue
            packets.append(data)
            covered.add((sname, op))
        if add_unknown:
            packets.insert(rng.below(len(packets) + 1), gen_unknown_bytes(rng, known))
        check_ctrl_case(ctx, sname, packets, burst, model_obs)
    ctx.count('A.unparseable_candidates', unparseable)
    ctx.extra['A_class_x_situation_covered'] = len(covered)
    ctx.extra['A_classes'] = len(classes)


def check_ctrl_case(ctx, sname, packets, burst, model_obs, record=True):
    out, allr, errors = run_ctrl_case(sname, packets, burst)
    ops = [p[1] | (p[2] << 8) for p in packets]
    if record:
        ctx.case(('A', sname, [p.hex() for p in packets], burst), True,
                 {'kind': 'ctrl', 'situation': sname, 'cmds': [p.hex() for p in packets], 'burst': burst}
                 if ctx.evaluations % 300 == 7 else None)
        ctx.count('A.sequences')
        ctx.count('A.commands', len(packets))
        ctx.count('A.situation.' + sname)
        ctx.count('A.burst' if burst else 'A.stepwise')
        ctx.count('A.callback_errors', len(errors))
    bad = ctrl_oracle(packets, burst, out, allr)
    replay = {'kind': 'ctrl', 'situation': sname, 'cmds': [p.hex() for p in packets], 'burst': burst}
    if bad:
        ctx.violation(bad[0], f'situation {sname}: {bad[1]}', replay)
    # correspondence with the skeleton model: the observed (status, complete) counts must be
    # among the outcomes the regenerated skeleton allows for that opcode
    if model_obs is not None and not burst:
        for k, (exc, rs) in enumerate(out):
            if exc is not None:
                continue            # exceptions for parameter values are outside the skeleton
            mine = [r for r in rs if r[1] == ops[k]]
            n_cs = min(2, sum(1 for r in mine if r[0] == 'CS'))
            n_cc = min(2, sum(1 for r in mine if r[0] == 'CC'))
            allowed = model_obs.get(ops[k], model_obs['unlisted'])
            if record:
                ctx.count('A.reply.CS' if n_cs else ('A.reply.CC' if n_cc else 'A.reply.none'))
            if (n_cs, n_cc) not in allowed:
                ctx.disagree('controller skeleton', {'situation': sname, 'cmd': packets[k].hex()},
                             sorted(allowed), [n_cs, n_cc])
    return bad


# ---- (A2) stateful sequences within a command family
FAMILIES = {
    'ext_adv': r'Extended_Advertis|Advertising_Set|Maximum_Advertising_Data|Supported_Advertising_Sets|Extended_Scan_Response',
    'legacy_adv': r'HCI_LE_Set_Advertising_|HCI_LE_Set_Scan_Response_Data|HCI_LE_Set_Random_Address|Advertising_Physical_Channel',
    'scan': r'Scan_Parameters|Scan_Enable|Extended_Scan',
    'periodic': r'Periodic',
    'cis': r'CIG|CIS|ISO_Data_Path|BIG',
    'conn': (r'Create_Connection|Disconnect|Connection_Update|Remote_Features|Enable_Encryption|Long_Term_Key|'
             r'Accept_Connection|Reject_Connection|Remote_Name|Switch_Role|Sniff'),
}
# few values for the fields that carry the family's state, so that the commands of a sequence
# meet on the same advertising set / connection / CIG, with every own-address type and both enables
FAMILY_OVERRIDES = {
    'advertising_handle': [0, 0, 1, 5], 'advertising_handles': [0, 0, 1, 5], 'own_address_type': [0, 1, 2, 3],
    'enable': [0, 1, 1], 'advertising_enable': [0, 1, 1], 'le_scan_enable': [0, 1, 1], 'scan_enable': [0, 1, 2, 3],
    'operation': [0, 1, 2, 3, 4], 'advertising_type': [0, 1, 2, 3, 4], 'cig_id': [0, 1], 'cis_id': [0, 1, 2],
    'connection_handle': [1, 2, 3, 4, 0x0123], 'acl_connection_handle': [1, 2, 0x0123],
    'cis_connection_handle': [2, 3, 4, 5], 'data_path_direction': [0, 1, 3], 'num_sets': [0, 1, 2],
    'advertising_event_properties': [0x13, 0x00, 0x01, 0x10, 0x1D], 'primary_advertising_interval_min': [0, 0x20, 0xFFFFFF],
}
FAMILY_SITUATIONS = ['nolink', 'link0', 'link1', 'link1conn', 'link2conn']
PROBE = bytes.fromhex('01091000')      # Read BD_ADDR: a later command must still be answered


def family_classes():
    import re
    from bumble import hci
    out = {}
    for fam, rx in FAMILIES.items():
        out[fam] = sorted(op for op, c in hci.HCI_Command.command_classes.items() if re.search(rx, c.__name__))
    return out


def gen_family_sequence(rng, fam, ops, classes):
    from bumble import hci
    env = {'handles': [1, 2, 3, 4], 'addresses': [ADDR_P2, ADDR_P3, ADDR_ABSENT, ADDR_CUT, RND_P2, '00:00:00:00:00:00'],
           'overrides': FAMILY_OVERRIDES}
    packets = []
    for _ in range(rng.choice([4, 6, 8, 12])):
        op = rng.choice(ops)
        for _ in range(8):
            cand = gen_command_bytes(rng, classes[op], env)
            try:
                hci.HCI_Packet.from_bytes(cand)
                packets.append(cand)
                break
            except Exception:
                continue
    packets.append(PROBE)
    return packets


# deterministic sequences: every own-address type x with / without a random address for the set,
# enable, re-enable, disable, remove / clear while enabled (extended and legacy advertising)
def corpus_family_sequences():
    from bumble import hci
    seqs = []
    for own in (0, 1, 2, 3):
        for with_random in (False, True):
            def params(h):
                return hci.HCI_LE_Set_Extended_Advertising_Parameters_Command(
                    advertising_handle=h, advertising_event_properties=0x13, primary_advertising_interval_min=0x20,
                    primary_advertising_interval_max=0x20, primary_advertising_channel_map=7, own_address_type=own,
                    peer_address_type=0, peer_address=hci.Address.ANY, advertising_filter_policy=0,
                    advertising_tx_power=0, primary_advertising_phy=1, secondary_advertising_max_skip=0,
                    secondary_advertising_phy=1, advertising_sid=0, scan_request_notification_enable=0)

            def enable(on, hs):
                return hci.HCI_LE_Set_Extended_Advertising_Enable_Command(
                    enable=on, advertising_handles=hs, durations=[0] * len(hs),
                    max_extended_advertising_events=[0] * len(hs))
            seq = [params(1)]
            if with_random:
                seq.append(hci.HCI_LE_Set_Advertising_Set_Random_Address_Command(
                    advertising_handle=1, random_address=hci.Address(RND_CUT)))
            seq += [hci.HCI_LE_Set_Extended_Advertising_Data_Command(
                        advertising_handle=1, operation=3, fragment_preference=0, advertising_data=bytes([2, 1, 6])),
                    enable(1, [1]), enable(1, [1]), enable(0, [1]), enable(1, [1, 5]), params(5), enable(1, [5, 1]),
                    hci.HCI_LE_Remove_Advertising_Set_Command(advertising_handle=1), enable(1, [1]),
                    hci.HCI_LE_Clear_Advertising_Sets_Command(), enable(0, [])]
            seqs.append(('ext_adv', [bytes(c) for c in seq] + [PROBE]))
        legacy = [hci.HCI_LE_Set_Advertising_Parameters_Command(
                      advertising_interval_min=0x20, advertising_interval_max=0x20, advertising_type=0,
                      own_address_type=own, peer_address_type=0, peer_address=hci.Address.ANY,
                      advertising_channel_map=7, advertising_filter_policy=0),
                  hci.HCI_LE_Set_Advertising_Data_Command(advertising_data=bytes([2, 1, 6])),
                  hci.HCI_LE_Set_Advertising_Enable_Command(advertising_enable=1),
                  hci.HCI_LE_Set_Advertising_Enable_Command(advertising_enable=1),
                  hci.HCI_LE_Set_Advertising_Enable_Command(advertising_enable=0),
                  hci.HCI_LE_Set_Scan_Enable_Command(le_scan_enable=1, filter_duplicates=0),
                  hci.HCI_LE_Set_Advertising_Enable_Command(advertising_enable=1)]
        seqs.append(('legacy_adv', [bytes(c) for c in legacy] + [PROBE]))
    return seqs


def campaign_families(ctx, model_obs):
    from bumble import hci
    classes = dict(hci.HCI_Command.command_classes)
    fams = family_classes()
    rng = ctx.rng
    k = 0
    for fam, packets in corpus_family_sequences():
        for sname in ('link0', 'link1', 'link1conn'):
            ctx.count('A2.family.' + fam)
            check_ctrl_case(ctx, sname, packets, False, model_obs)
    for fam, ops in sorted(fams.items()):
        for _ in range(ctx.n(12, 400)):
            packets = gen_family_sequence(rng, fam, ops, classes)
            sname = FAMILY_SITUATIONS[k % len(FAMILY_SITUATIONS)]
            k += 1
            ctx.count('A2.family.' + fam)
            check_ctrl_case(ctx, sname, packets, False, model_obs)


def load_model_obs(ctx):
    """opcode -> set of (status count, complete count) the skeleton model allows (no escape)"""
    try:
        table, unlisted = ctx.coq_eval(['Model.Skeleton', 'Gen.C03Skeleton'],
                                       ['table_obs ctrl', 'unlisted_obs ctrl'])
    except Exception as e:
        ctx.disagree('controller skeleton', None, 'model evaluates', repr(e)[:300])
        return None
    obs = {}
    for op, kind, has_handler, outs in table:
        obs[op] = {(a, b) for (a, b, esc) in outs if not esc}
    obs['unlisted'] = {(a, b) for (a, b, esc) in unlisted[3] if not esc}
    return obs


# ============================================================================= (B) host campaign
B_SYNC = ['HCI_Read_BD_ADDR_Command', 'HCI_Read_Local_Version_Information_Command', 'HCI_LE_Rand_Command',
          'HCI_LE_Read_Buffer_Size_Command', 'HCI_Read_Buffer_Size_Command', 'HCI_Read_Local_Name_Command',
          'HCI_LE_Read_Supported_States_Command', 'HCI_Inquiry_Cancel_Command', 'HCI_LE_Clear_Resolving_List_Command']


def b_commands():
    from bumble import hci
    addr = hci.Address(ADDR_ABSENT, hci.Address.PUBLIC_DEVICE_ADDRESS)
    cmds = [getattr(hci, n)() for n in B_SYNC]
    cmds += [
        hci.HCI_Set_Event_Mask_Command(event_mask=bytes(8)),
        hci.HCI_Write_Scan_Enable_Command(scan_enable=3),
        hci.HCI_Disconnect_Command(connection_handle=0x0123, reason=0x13),
        hci.HCI_LE_Read_Remote_Features_Command(connection_handle=0x0123),
        hci.HCI_Read_Remote_Supported_Features_Command(connection_handle=0x0123),
        hci.HCI_Inquiry_Command(lap=0x9E8B33, inquiry_length=1, num_responses=0),
        hci.HCI_Sniff_Mode_Command(connection_handle=1, sniff_max_interval=2, sniff_min_interval=2,
                                   sniff_attempt=1, sniff_timeout=1),
        hci.HCI_Command(b'', op_code=0xFC77),
        hci.HCI_Command(b'\x01\x02', op_code=0x3FFF),
    ]
    return cmds


def b_scripted_ok(cmd):
    """commands whose Command Complete can be synthesised as a bare status byte"""
    from bumble import hci
    if isinstance(cmd, hci.HCI_SyncCommand):
        return issubclass(cmd.return_parameters_class, hci.HCI_StatusReturnParameters)
    return True


def gen_host_case(rng, idx):
    ncmds = len(b_commands())
    ntasks = rng.range(1, 8)
    tasks = []
    for _ in range(ntasks):
        tasks.append([rng.below(ncmds) for _ in range(rng.choice([1, 1, 2, 3]))])
    if idx % 3 == 1:
        # a third of the cases contain commands whose transmission raises (unencodable / sink raises)
        for t in tasks:
            for k in range(len(t)):
                if rng.chance(1, 5):
                    t[k] = rng.choice([FAULT_UNENCODABLE, FAULT_SINK])
    mode = 'real' if idx % 2 == 0 else 'scripted'
    credits = [rng.choice([1, 1, 1, 2, 5, 255]) for _ in range(sum(len(t) for t in tasks))]
    # the schedule: a seed for the per-turn choices, so the replay is self-contained
    # two cases in five also cancel tasks at seeded points of the schedule (a caller queued on the
    # semaphore, the owner of the outstanding command before / after its response, a finished task)
    cancel_rate = [0, 12, 0, 25, 0, 12][idx % 6]
    lose_rate = [0, 0, 0, 0, 8, 8][idx % 6]       # the transport is lost at a seeded turn (fix D16k)
    return {'kind': 'host', 'mode': mode, 'tasks': tasks, 'credits': credits, 'sched_seed': rng.below(1 << 32),
            'script': None, 'cancel_rate': cancel_rate, 'lose_rate': lose_rate}


LAST_CANCEL_KINDS = {}
LAST_HOST_END = {}
FAULT_UNENCODABLE = 100      # task command indices: a command whose transmission raises
FAULT_SINK = 101


async def _run_host_case(case):
    """Returns (trace, callers, status) — see campaign_host."""
    from bumble import hci
    from bumble.host import Host
    try:
        from bumble.transport.common import TransportLostError
    except ImportError:           # older trees
        class TransportLostError(Exception):
            pass
    from bumble.controller import Controller
    from lib.verif import Rng

    rng = Rng(case['sched_seed'])
    cmds = b_commands()
    trace = []
    to_ctrl = []          # FIFO host -> controller (bytes)
    from_ctrl = []        # FIFO controller -> host (bytes)
    current = {}          # asyncio task -> caller id
    callers = {}          # caller id -> [opcode, outcome]
    script = list(case.get('script') or [])
    credits = list(case['credits'])

    armed_for = {}                # caller id -> its next packet makes the sink raise
    rng_faults = Rng(case['sched_seed'] ^ 0x5EED)

    class HostSide:
        def on_packet(self, data):
            if armed_for.pop(current.get(asyncio.current_task(), -1), False):
                raise OSError('the transport sink refuses this packet')     # nothing reaches the wire
            data = bytes(data)
            c = current.get(asyncio.current_task(), -1)
            trace.append(['send', c, data[1] | (data[2] << 8)])
            to_ctrl.append(data)

    class CtrlSide:
        def on_packet(self, data):
            enqueue_event(bytes(data))

    def enqueue_event(data):
        r = reply_of(data)
        if r:
            trace.append(['reply', r[0] == 'CC', r[1], r[2]])
        from_ctrl.append(data)

    host = Host()
    host.ready = True
    host.set_packet_sink(HostSide())
    ctrl = None
    if case['mode'] == 'real':
        ctrl = Controller('ctrl', host_sink=CtrlSide(), public_address=ADDR_CUT)

    def scripted_reply(data):
        op = data[1] | (data[2] << 8)
        n = credits.pop(0) if credits else 1
        cls = hci.HCI_Command.command_classes.get(op)
        if cls is not None and issubclass(cls, hci.HCI_SyncCommand):
            ev = bytes([0x04, 0x0E, 4, n, op & 0xFF, op >> 8, 0x0C])
        else:
            ev = bytes([0x04, 0x0F, 4, 0x0C, n, op & 0xFF, op >> 8])
        enqueue_event(ev)

    def deliver_to_ctrl():
        data = to_ctrl.pop(0)
        if ctrl is not None:
            ctrl.on_packet(data)
        else:
            scripted_reply(data)

    def deliver_to_host():
        data = from_ctrl.pop(0)
        is_reply = reply_of(data) is not None
        if is_reply:
            trace.append(['deliver'])
        try:
            host.on_packet(data)
        except Exception as e:      # noqa
            if is_reply:
                trace.append(['host-error', type(e).__name__])

    next_id = [0]

    async def task_body(indices):
        for ci in indices:
            fault = None
            if ci == FAULT_UNENCODABLE:
                # a parameter that does not fit its field: bytes(command) raises inside send_hci_packet
                cmd = rng_faults.choice([
                    hci.HCI_LE_Set_Scan_Enable_Command(le_scan_enable=0x1FF, filter_duplicates=0),
                    hci.HCI_LE_Set_Scan_Parameters_Command(le_scan_type=0, le_scan_interval=70000, le_scan_window=16,
                                                           own_address_type=0, scanning_filter_policy=0),
                    hci.HCI_Disconnect_Command(connection_handle=0x12345, reason=0x13)])
                fault = 'unencodable'
            elif ci == FAULT_SINK:
                cmd = cmds[0]
                fault = 'sink'
            else:
                cmd = cmds[ci]
                if case['mode'] == 'scripted' and not b_scripted_ok(cmd):
                    cmd = cmds[0] if b_scripted_ok(cmds[0]) else cmds[9]
            c = next_id[0]
            next_id[0] += 1
            current[asyncio.current_task()] = c
            callers[c] = [cmd.op_code, 'pending']
            trace.append(['call', c, cmd.op_code])
            if fault == 'sink':
                armed_for[c] = True
            try:
                resp = await host.send_command(cmd)
            except TransportLostError:
                callers[c][1] = 'lost'
                trace.append(['lost', c])
                continue
            except asyncio.CancelledError:
                if not closing[0]:
                    callers[c][1] = 'cancelled'
                    trace.append(['cancelled', c])
                raise
            except AssertionError:
                callers[c][1] = 'assert'
                trace.append(['failed', c])
                continue
            except Exception as e:      # noqa
                if fault and not any(ev[0] == 'send' and ev[1] == c for ev in trace):
                    # the transmission raised: the caller has its exception, nothing went out
                    callers[c][1] = 'sendfail'
                    trace.append(['sendfail', c])
                    continue
                callers[c][1] = 'error:' + type(e).__name__
                trace.append(['failed', c])
                continue
            callers[c][1] = 'done'
            trace.append(['resumed', c, resp.command_opcode])

    closing = [False]
    cancel_kinds = {'queued': 0, 'owner-unanswered': 0, 'owner-answered': 0, 'finished': 0}

    async def cancel_task(ti):
        """task.cancel() on the ti-th started task, then let that task run to the end of its
        cancellation before anything else happens (the model's Cancel step is atomic)"""
        if ti >= len(tasks):
            return
        t = tasks[ti]
        c = current.get(t)
        if t.done():
            t.cancel()              # cancel after completion: must be a no-op
            cancel_kinds['finished'] += 1
            return
        if c is None or callers[c][1] != 'pending':
            return                  # created in this very turn, has not called send_command yet
        if host.pending_command is not None and any(e[0] == 'send' and e[1] == c for e in trace):
            cancel_kinds['owner-answered' if host.pending_response.done() else 'owner-unanswered'] += 1
        else:
            cancel_kinds['queued'] += 1
        trace.append(['cancel', c])
        t.cancel()
        await asyncio.sleep(0)
        await asyncio.sleep(0)

    lost = [False]

    def lose():
        """the transport reports its loss: nothing crosses it any more"""
        if lost[0]:
            return
        lost[0] = True
        trace.append(['lose'])
        to_ctrl.clear()
        from_ctrl.clear()
        try:
            host.on_transport_lost()
        except Exception as e:      # noqa
            trace.append(['host-error', type(e).__name__])

    lose_rate = case.get('lose_rate', 0)
    cancel_rate = case.get('cancel_rate', 0)
    pending_tasks = list(case['tasks'])
    tasks = []
    budget = 60 * (sum(len(t) for t in case['tasks']) + 4)
    steps = 0
    hung = False
    while True:
        await asyncio.sleep(0)
        steps += 1
        if script:
            act = script.pop(0)
            if act[0] == 'start' and pending_tasks:
                tasks.append(asyncio.ensure_future(task_body(pending_tasks.pop(0))))
            elif act[0] == 'ctrl' and to_ctrl:
                deliver_to_ctrl()
            elif act[0] == 'host' and from_ctrl:
                deliver_to_host()
            elif act[0] == 'event':
                enqueue_event(bytes.fromhex(act[1]))
            elif act[0] == 'drop' and to_ctrl:
                to_ctrl.pop(0)
                trace.append(['drop'])
            elif act[0] == 'lose':
                lose()
            elif act[0] == 'cancel':
                await cancel_task(act[1])
            elif act[0] == 'hostcancel' and from_ctrl:
                deliver_to_host()           # the future is completed ...
                await cancel_task(act[1])   # ... and its task cancelled before it runs again
        else:
            if pending_tasks and rng.chance(1, 2):
                tasks.append(asyncio.ensure_future(task_body(pending_tasks.pop(0))))
            if to_ctrl and not lost[0] and rng.chance(1, 2):
                deliver_to_ctrl()
            if from_ctrl and not lost[0] and rng.chance(1, 2):
                deliver_to_host()
            if cancel_rate and tasks and rng.chance(cancel_rate, 100):
                await cancel_task(rng.below(len(tasks)))
            if lose_rate and tasks and rng.chance(lose_rate, 100):
                lose()
        if not pending_tasks and not script and all(t.done() for t in tasks) and (lost[0] or (not to_ctrl and not from_ctrl)):
            break
        if steps > budget:
            hung = True
            break
    closing[0] = True
    for t in tasks:
        if not t.done():
            t.cancel()
    await asyncio.sleep(0)
    LAST_CANCEL_KINDS.clear()
    LAST_CANCEL_KINDS.update(cancel_kinds)
    LAST_HOST_END.clear()
    LAST_HOST_END.update({'gate_locked': host.command_semaphore.locked(), 'pending_command': host.pending_command is not None})
    if not hung:
        trace.append(['end', host.command_semaphore.locked(), host.pending_command is not None])
    return trace, callers, hung


def host_oracle(trace, callers, hung, expect_block=False):
    """The property over the boundary trace only: never two commands outstanding at the
    controller boundary; each caller that is not cancelled resumes with the response to its own
    opcode; no caller that is not cancelled is left waiting.  A failure that follows the
    cancellation of the caller owning a still unanswered command is reported under the
    signature of that witness class (known finding D03m)."""
    unanswered = []             # callers whose command is with the controller, oldest first
    lost = False
    ops = {}
    owner_cancel = False

    def sig(s):
        return 'B:owner-cancelled-while-outstanding' if owner_cancel else s

    for ev in trace:
        if ev[0] == 'call':
            ops[ev[1]] = ev[2]
        elif ev[0] == 'send':
            if lost:
                return (sig('B:sent-after-loss'), f'command {ev[2]:#06x} of caller {ev[1]} sent after the transport was lost')
            unanswered.append(ev[1])
            if len(unanswered) > 1:
                return (sig('B:two-outstanding'), f'command {ev[2]:#06x} of caller {ev[1]} sent while the command of caller '
                                                  f'{unanswered[0]} is outstanding')
        elif ev[0] == 'deliver':
            if unanswered:
                unanswered.pop(0)
        elif ev[0] == 'drop':
            if unanswered:
                unanswered.pop(0)
        elif ev[0] == 'lose':
            lost = True
            unanswered.clear()      # whatever was in flight is gone with the transport
        elif ev[0] == 'lost':
            if not lost:
                return (sig('B:spurious-transport-lost'), f'send_command of caller {ev[1]} raised TransportLostError before any loss')
        elif ev[0] == 'cancel':
            if ev[1] in unanswered:
                owner_cancel = True
        elif ev[0] == 'resumed':
            if ev[2] != ops.get(ev[1]):
                return (sig('B:wrong-response'), f'caller {ev[1]} sent {ops.get(ev[1]):#06x} and was resumed with the response to {ev[2]:#06x}')
        elif ev[0] == 'end':
            if not expect_block and not lost and (ev[1] or ev[2]):
                return (sig('B:gate-stuck'), f'all callers finished but the command gate is '
                                             f'{"locked" if ev[1] else "free"} and pending_command is '
                                             f'{"set" if ev[2] else "None"}: later commands would block')
        elif ev[0] == 'failed':
            return (sig('B:caller-failed'), f'send_command of caller {ev[1]} raised ({callers[ev[1]][1]})')
        elif ev[0] == 'host-error':
            return (sig('B:host-error'), f'Host.on_packet raised {ev[1]} on a Command Complete/Status event')
    cancelled = {ev[1] for ev in trace if ev[0] == 'cancel'}
    for c, (op, st) in callers.items():
        if st == 'cancelled' and c not in cancelled:
            return (sig('B:spurious-cancel'), f'send_command of caller {c} raised CancelledError although its task was not cancelled')
    if not expect_block:
        waiting = sorted(c for c, (op, st) in callers.items() if st == 'pending')
        if hung or waiting:
            return (sig('B:left-waiting'), f'callers {waiting} still waiting after the loop ran to its budget; trace tail {trace[-6:]}')
    return None


def trace_to_labels(trace):
    """model schedule and the observations the implementation produced"""
    labels, obs = [], []
    inflight = []
    for ev in trace:
        if ev[0] == 'call':
            labels.append(f'Call {coq_z(ev[1])} {coq_z(ev[2])}')
        elif ev[0] == 'send':
            labels.append(f'Acquire {coq_z(ev[1])}')
            obs.append((0, ev[1], ev[2]))
            inflight.append(ev[2])
        elif ev[0] == 'reply':
            cc = 'true' if ev[1] else 'false'
            if inflight and inflight[0] == ev[2]:
                inflight.pop(0)
                labels.append(f'CtrlReply {cc} {coq_z(ev[3])}')
            else:
                labels.append(f'CtrlEvent {cc} {coq_z(ev[2])} {coq_z(ev[3])}')
        elif ev[0] == 'drop':
            if inflight:
                inflight.pop(0)
            labels.append('CtrlDrop')
        elif ev[0] == 'deliver':
            labels.append('Deliver')
        elif ev[0] == 'resumed':
            labels.append(f'Resume {coq_z(ev[1])}')
            obs.append((1, ev[1], ev[2]))
        elif ev[0] == 'lose':
            labels.append('Lose')
            inflight.clear()
        elif ev[0] == 'lost':
            # the owner is resumed with the exception; a queued caller fails right after acquiring
            sent = any(e[0] == 'send' and e[1] == ev[1] for e in trace)
            labels.append(f'Resume {coq_z(ev[1])}' if sent else f'Acquire {coq_z(ev[1])}')
            obs.append((4, ev[1], 0))
        elif ev[0] == 'sendfail':
            labels.append(f'AcquireFail {coq_z(ev[1])}')
            obs.append((5, ev[1], 0))
        elif ev[0] == 'cancelled':
            # the model's Cancel step is the moment the cancelled task runs (CancelledError leaves
            # _send_command); the harness makes no delivery between task.cancel() and that moment
            labels.append(f'Cancel {coq_z(ev[1])}')
            obs.append((3, ev[1], 0))
        elif ev[0] == 'failed':
            # the failing Acquire produced no 'send': insert it
            labels.append(f'Acquire {coq_z(ev[1])}')
            obs.append((2, ev[1], 0))
    return '[' + '; '.join(labels) + ']', obs


# deterministic scripted scenarios, including the contract violations the code tolerates
def _ev_cc(op, n, status=0x0C):
    return bytes([0x04, 0x0E, 4, n, op & 0xFF, op >> 8, status]).hex()


B_SCRIPTED = [
    # two callers, plain
    {'name': 'two-callers', 'tasks': [[0], [1]], 'credits': [1, 1], 'expect_block': False,
     'script': [['start'], ['start'], ['ctrl'], ['host'], ['idle'], ['idle'], ['ctrl'], ['host'], ['idle'], ['idle']]},
    # zero credits: the second caller is blocked until the opcode-0 flow control event
    {'name': 'zero-credit-then-flow-control', 'tasks': [[7], [8]], 'credits': [0, 1], 'expect_block': False,
     'script': [['start'], ['start'], ['ctrl'], ['host'], ['idle'], ['idle'], ['idle'],
                ['event', _ev_cc(0, 1)], ['host'], ['idle'], ['ctrl'], ['host'], ['idle'], ['idle']]},
    # zero credits, then a flow-control event that still grants nothing (must not release), then one that does
    {'name': 'zero-credit-empty-flow-control', 'tasks': [[7], [8]], 'credits': [0, 1], 'expect_block': False,
     'script': [['start'], ['start'], ['ctrl'], ['host'], ['idle'], ['idle'], ['event', _ev_cc(0, 0)], ['host'],
                ['idle'], ['idle'], ['idle'], ['event', _ev_cc(0, 1)], ['host'], ['idle'], ['ctrl'], ['host'], ['idle'],
                ['idle']]},
    # zero credits and no flow control event: the second caller stays blocked (model agrees)
    {'name': 'zero-credit-blocks', 'tasks': [[7], [8]], 'credits': [0, 1], 'expect_block': True,
     'script': [['start'], ['start'], ['ctrl'], ['host'], ['idle'], ['idle'], ['idle'], ['idle']]},
    # cancellation of a caller queued on the semaphore behind an outstanding command (whose
    # response is held back): nothing but that caller may change; the next caller waits its turn
    {'name': 'cancel-queued-caller', 'tasks': [[0], [2], [5]], 'credits': [1, 1, 1], 'expect_block': False,
     'script': [['start'], ['start'], ['idle'], ['cancel', 1], ['start'], ['idle'], ['ctrl'], ['host'], ['idle'],
                ['idle'], ['ctrl'], ['host'], ['idle'], ['idle']]},
    # two queued callers cancelled, one of them after the semaphore was handed to it
    {'name': 'cancel-two-queued', 'tasks': [[0], [2], [5], [7]], 'credits': [1, 1, 1, 1], 'expect_block': False,
     'script': [['start'], ['start'], ['start'], ['start'], ['idle'], ['cancel', 2], ['ctrl'], ['hostcancel', 1],
                ['idle'], ['idle'], ['ctrl'], ['host'], ['idle'], ['idle'], ['ctrl'], ['host'], ['idle'], ['idle']]},
    # the owner is cancelled after its response arrived but before its task ran again
    {'name': 'cancel-owner-after-response', 'tasks': [[0], [2]], 'credits': [1, 1], 'expect_block': False,
     'script': [['start'], ['start'], ['ctrl'], ['hostcancel', 0], ['idle'], ['ctrl'], ['host'], ['idle'], ['idle']]},
    # a finished task is cancelled
    {'name': 'cancel-after-completion', 'tasks': [[0], [2]], 'credits': [1, 1], 'expect_block': False,
     'script': [['start'], ['ctrl'], ['host'], ['idle'], ['idle'], ['cancel', 0], ['start'], ['ctrl'], ['host'],
                ['idle'], ['idle']]},
    # the owner is cancelled while its command is unanswered, nobody else sends before the late
    # response: the response is dropped, later callers are served
    {'name': 'cancel-owner-unanswered-alone', 'tasks': [[0], [2]], 'credits': [1, 1], 'expect_block': False,
     'script': [['start'], ['idle'], ['cancel', 0], ['ctrl'], ['host'], ['idle'], ['start'], ['ctrl'], ['host'],
                ['idle'], ['idle']]},
    # known finding D03m: the owner is cancelled while its command is unanswered and another caller
    # is queued: it sends at once (two outstanding) and gets the cancelled caller's response
    {'name': 'cancel-owner-unanswered-queued', 'tasks': [[0], [2]], 'credits': [1, 1], 'expect_block': False,
     'script': [['start'], ['start'], ['idle'], ['cancel', 0], ['idle'], ['ctrl'], ['host'], ['idle'], ['ctrl'],
                ['host'], ['idle'], ['idle']]},
    # the transmission of a command raises (unencodable parameter / the sink raises): that caller gets its
    # exception, the gate is free again, the callers behind it are served
    {'name': 'send-raises-unencodable', 'tasks': [[100], [0], [2]], 'credits': [1, 1, 1], 'expect_block': False,
     'script': [['start'], ['start'], ['start'], ['idle'], ['ctrl'], ['host'], ['idle'], ['idle'], ['ctrl'], ['host'],
                ['idle'], ['idle']]},
    {'name': 'send-raises-sink-while-queued', 'tasks': [[0], [101], [2]], 'credits': [1, 1, 1], 'expect_block': False,
     'script': [['start'], ['start'], ['start'], ['idle'], ['ctrl'], ['host'], ['idle'], ['idle'], ['ctrl'], ['host'],
                ['idle'], ['idle']]},
    {'name': 'send-raises-last', 'tasks': [[0], [100]], 'credits': [1, 1], 'expect_block': False,
     'script': [['start'], ['ctrl'], ['host'], ['idle'], ['idle'], ['start'], ['idle'], ['idle']]},
    # transport lost while a command is outstanding and two callers are queued: the owner fails with
    # TransportLostError, the queued callers fail as soon as they get the gate, a later caller too
    {'name': 'transport-lost-outstanding', 'tasks': [[0], [2], [5], [7]], 'credits': [1, 1, 1, 1], 'expect_block': False,
     'script': [['start'], ['start'], ['start'], ['idle'], ['lose'], ['idle'], ['idle'], ['idle'], ['start'], ['idle'],
                ['idle']]},
    # transport lost after the response arrived but before its task ran; and with nothing pending
    {'name': 'transport-lost-after-response', 'tasks': [[0], [2]], 'credits': [1, 1], 'expect_block': False,
     'script': [['start'], ['start'], ['ctrl'], ['host'], ['lose'], ['idle'], ['idle'], ['idle']]},
    {'name': 'transport-lost-idle', 'tasks': [[0], [2]], 'credits': [1, 1], 'expect_block': False,
     'script': [['start'], ['ctrl'], ['host'], ['idle'], ['idle'], ['lose'], ['start'], ['idle'], ['idle']]},
    # a swallowed command blocks everybody (the D03a/b behaviour seen from the host)
    {'name': 'dropped-command-blocks', 'tasks': [[10], [0]], 'credits': [1, 1], 'expect_block': True,
     'script': [['start'], ['start'], ['drop'], ['idle'], ['idle'], ['idle']]},
]


def campaign_host(ctx):
    rng = ctx.rng
    cases = []
    for sc in B_SCRIPTED:
        cases.append({'kind': 'host', 'mode': 'scripted', 'tasks': sc['tasks'], 'credits': sc['credits'],
                      'sched_seed': 0, 'script': sc['script'], 'expect_block': sc['expect_block'], 'name': sc['name'],
                      'cancel_rate': 0, 'lose_rate': 0})
    for f in sorted(os.listdir(CORPUS)) if os.path.isdir(CORPUS) else []:
        with open(os.path.join(CORPUS, f)) as fh:
            obj = json.load(fh)
        if obj.get('replay', {}).get('kind') == 'host':
            cases.append(obj['replay'])
    for i in range(ctx.n(300, 20000)):
        cases.append(gen_host_case(rng, i))
    runs = []
    exprs = []
    for case in cases:
        (trace, callers, hung), errors = run_async(_run_host_case, case)
        labels, obs = trace_to_labels(trace)
        runs.append((case, trace, callers, hung, obs, errors, dict(LAST_CANCEL_KINDS)))
        exprs.append(f'accept_obs {labels}')
    model = ctx.coq_eval(['Model.HostCmd'], exprs)
    for (case, trace, callers, hung, obs, errors, ckinds), m in zip(runs, model):
        ncallers = len(callers)
        ctx.case(('B', case['mode'], case['tasks'], case['credits'], case['sched_seed'], case.get('script'), case.get('cancel_rate'), case.get('lose_rate')),
                 ncallers >= 2, {'kind': 'host', 'mode': case['mode'], 'tasks': case['tasks']} if ctx.evaluations % 200 == 3 else None)
        ctx.count('B.cases')
        ctx.count('B.mode.' + case['mode'])
        ctx.count('B.callers', ncallers)
        ctx.count(f'B.tasks.{len(case["tasks"])}')
        ctx.count('B.callback_errors', len(errors))
        for k, v in ckinds.items():
            ctx.count('B.cancel.' + k, v)
        ctx.count('B.send_failures', sum(1 for ev in trace if ev[0] == 'sendfail'))
        if any(ev[0] == 'lose' for ev in trace):
            ctx.count('B.cases_with_transport_loss')
        if case.get('cancel_rate') or any(a[0] in ('cancel', 'hostcancel') for a in (case.get('script') or [])):
            ctx.count('B.cases_with_cancellation')
        replay = dict(case)
        bad = host_oracle(trace, callers, hung, case.get('expect_block', False))
        if bad:
            ctx.violation(bad[0], f'host mode={case["mode"]} tasks={case["tasks"]}: {bad[1]}', replay)
        # trace acceptance
        if m is None:
            ctx.disagree('HostCmd trace acceptance', replay, 'trace rejected by the model', trace[-8:])
            continue
        mobs, mphases, (mq, mall, mout) = m[1]
        impl_phases = sorted([c, {'pending': None, 'done': 2, 'assert': 3, 'cancelled': 4, 'lost': 5, 'sendfail': 6}.get(st, 3)]
                             for c, (op, st) in callers.items())
        model_phases = sorted([c, ph if ph in (2, 3, 4, 5, 6) else None] for (c, ph, r) in mphases)
        if [tuple(x) for x in mobs] != obs or impl_phases != model_phases:
            ctx.disagree('HostCmd observations', replay, [mobs, model_phases], [obs, impl_phases])
        resumed_with = {ev[1]: ev[2] for ev in trace if ev[0] == 'resumed'}
        all_done = all(st in ('cancelled', 'lost', 'sendfail') or (st == 'done' and resumed_with.get(c) == op)
                       for c, (op, st) in callers.items())
        if bool(mall) != all_done:
            ctx.disagree('HostCmd all_answered', replay, mall, all_done)


# ---- (B2) every registered command class through a real Host to a real Controller
async def _run_host_all(packets, ntasks):
    """packets: command packets (bytes).  They are parsed into command objects and issued by
    `ntasks` concurrent tasks through Host.send_command to a directly connected Controller.
    Returns [(opcode, response opcode or None)] and the number of commands in flight at most."""
    from bumble import hci
    from bumble.host import Host
    from bumble.controller import Controller

    class Tap:
        """host -> controller, counting outstanding commands at the boundary"""
        def __init__(self):
            self.outstanding = 0
            self.max_outstanding = 0
            self.ctrl = None

        def on_packet(self, data):
            if data[0] == 0x01:
                self.outstanding += 1
                self.max_outstanding = max(self.max_outstanding, self.outstanding)
            self.ctrl.on_packet(data)

    class Back:
        def __init__(self, tap, host):
            self.tap, self.host = tap, host

        def on_packet(self, data):
            if reply_of(bytes(data)):
                self.tap.outstanding -= 1
            self.host.on_packet(data)

    host = Host()
    host.ready = True
    tap = Tap()
    ctrl = Controller('ctrl', host_sink=Back(tap, host), public_address=ADDR_CUT)
    tap.ctrl = ctrl
    host.set_packet_sink(tap)
    cmds = [hci.HCI_Packet.from_bytes(p) for p in packets]
    results = [[c.op_code, None] for c in cmds]

    async def body(idx):
        for i in idx:
            try:
                resp = await host.send_command(cmds[i])
                results[i][1] = resp.command_opcode
            except Exception as e:      # noqa
                results[i][1] = 'error:' + type(e).__name__

    tasks = [asyncio.ensure_future(body(list(range(k, len(cmds), ntasks)))) for k in range(ntasks)]
    for _ in range(40 * len(cmds) + 100):
        await asyncio.sleep(0)
        if all(t.done() for t in tasks):
            break
    for t in tasks:
        if not t.done():
            t.cancel()
    await asyncio.sleep(0)
    return results, tap.max_outstanding


def campaign_host_all(ctx):
    from bumble import hci
    classes = dict(hci.HCI_Command.command_classes)
    env = {'handles': [1, 2, 3], 'addresses': [ADDR_P2, ADDR_ABSENT, ADDR_CUT]}
    rng = ctx.rng
    for _ in range(ctx.n(2, 40)):
        packets = []
        for op in rng.shuffle(sorted(classes)):
            for _ in range(8):
                cand = gen_command_bytes(rng, classes[op], env)
                try:
                    hci.HCI_Packet.from_bytes(cand)
                    packets.append(cand)
                    break
                except Exception:
                    continue
        for _ in range(10):
            packets.insert(rng.below(len(packets)), gen_unknown_bytes(rng, set(classes)))
        ntasks = rng.range(1, 8)
        (results, max_out), errors = run_async(_run_host_all, packets, ntasks)
        ctx.case(('B2', [p.hex() for p in packets], ntasks), True, None)
        ctx.count('B2.rounds')
        ctx.count('B2.commands', len(packets))
        ctx.count('B2.callback_errors', len(errors))
        replay = {'kind': 'hostall', 'cmds': [p.hex() for p in packets], 'ntasks': ntasks}
        if max_out > 1:
            ctx.violation('B:two-outstanding', f'{max_out} commands outstanding at the controller ({ntasks} tasks, every class)', replay)
        for (op, got), p in zip(results, packets):
            if got is None:
                ctx.violation(f'B:left-waiting:{op:#06x}', f'send_command({p.hex()}) never returned ({ntasks} tasks, every class)',
                              {'kind': 'hostall', 'cmds': [p.hex()], 'ntasks': 1})
                break
            if got != op:
                ctx.violation(f'B:wrong-response:{op:#06x}', f'send_command({p.hex()}) returned {got}', replay)
                break


# ============================================================================= (C) procedures
# each scenario: (name, situation, steps); a step is ('cut'|'p2'|'p3', command factory name, kwargs)
# or ('settle',) / ('remove', 'p2').  `expect` lists completion events that must arrive at the
# CUT's host: (event code, LE subevent code or None, predicate name)
def proc_scenarios():
    from bumble import hci
    A = lambda s: hci.Address(s, hci.Address.PUBLIC_DEVICE_ADDRESS)

    def le_create(addr):
        return hci.HCI_LE_Create_Connection_Command(
            le_scan_interval=16, le_scan_window=16, initiator_filter_policy=0, peer_address_type=0,
            peer_address=A(addr), own_address_type=0, connection_interval_min=6, connection_interval_max=6,
            max_latency=0, supervision_timeout=10, min_ce_length=0, max_ce_length=0)

    def le_ext_create(addr):
        return hci.HCI_LE_Extended_Create_Connection_Command(
            initiator_filter_policy=0, own_address_type=0, peer_address_type=0, peer_address=A(addr),
            initiating_phys=1, scan_intervals=[16], scan_windows=[16], connection_interval_mins=[6],
            connection_interval_maxs=[6], max_latencies=[0], supervision_timeouts=[10],
            min_ce_lengths=[0], max_ce_lengths=[0])

    adv_on = [('p2', hci.HCI_LE_Set_Advertising_Parameters_Command(
                 advertising_interval_min=0xFFFF, advertising_interval_max=0xFFFF, advertising_type=0,
                 own_address_type=0, peer_address_type=0, peer_address=hci.Address.ANY,
                 advertising_channel_map=7, advertising_filter_policy=0)),
              ('p2', hci.HCI_LE_Set_Advertising_Enable_Command(advertising_enable=1))]
    classic_create = lambda addr: hci.HCI_Create_Connection_Command(
        bd_addr=A(addr), packet_type=0xCC18, page_scan_repetition_mode=0, reserved=0, clock_offset=0,
        allow_role_switch=1)
    disc = lambda h: hci.HCI_Disconnect_Command(connection_handle=h, reason=0x13)
    enc = lambda h: hci.HCI_LE_Enable_Encryption_Command(connection_handle=h, random_number=bytes(8),
                                                         encrypted_diversifier=0, long_term_key=bytes(16))
    LE_CONN = (0x3E, 0x01)
    DISC = (0x05, None)
    S = []
    # --- LE connection creation / cancellation
    S.append(('le-create/peer-present', 'link1', [('cut', le_create(ADDR_P2))] + adv_on, [LE_CONN]))
    S.append(('le-ext-create/peer-present', 'link1', [('cut', le_ext_create(ADDR_P2))] + adv_on, [LE_CONN]))
    S.append(('le-create/peer-absent/cancelled', 'link1',
              [('cut', le_create(ADDR_ABSENT)), ('settle',), ('cut', hci.HCI_LE_Create_Connection_Cancel_Command())], [LE_CONN]))
    S.append(('le-ext-create/peer-absent/cancelled', 'link1',
              [('cut', le_ext_create(ADDR_ABSENT)), ('settle',), ('cut', hci.HCI_LE_Create_Connection_Cancel_Command())], [LE_CONN]))
    S.append(('le-create/no-peers/cancelled', 'link0',
              [('cut', le_create(ADDR_ABSENT)), ('settle',), ('cut', hci.HCI_LE_Create_Connection_Cancel_Command())], [LE_CONN]))
    S.append(('le-create/cancelled/create-again', 'link1',
              [('cut', le_create(ADDR_ABSENT)), ('settle',), ('cut', hci.HCI_LE_Create_Connection_Cancel_Command()),
               ('settle',), ('clear',), ('cut', le_create(ADDR_P2))] + adv_on, [LE_CONN]))
    # --- classic connection creation
    S.append(('classic-create/peer-present-accepts', 'link2conn-noclassic',
              [('cut', classic_create(ADDR_P3)), ('settle',),
               ('p3', hci.HCI_Accept_Connection_Request_Command(bd_addr=A(ADDR_CUT), role=1))], [(0x03, None)]))
    S.append(('classic-create/peer-absent', 'link1', [('cut', classic_create(ADDR_ABSENT))], [(0x03, None)]))
    S.append(('classic-create/no-peers', 'link0', [('cut', classic_create(ADDR_ABSENT))], [(0x03, None)]))
    # a second Create Connection for a peer being connected: every accepted one must be completed
    S.append(('classic-create/twice-same-peer', 'link2conn-noclassic',
              [('cut', classic_create(ADDR_P3)), ('settle',), ('cut', classic_create(ADDR_P3)), ('settle',),
               ('p3', hci.HCI_Accept_Connection_Request_Command(bd_addr=A(ADDR_CUT), role=1))],
              [('accepted', 0x0405, (0x03, None))]))
    S.append(('classic-create/already-connected', 'link2conn',
              [('cut', classic_create(ADDR_P3)), ('settle',),
               ('p3', hci.HCI_Accept_Connection_Request_Command(bd_addr=A(ADDR_CUT), role=1))],
              [('accepted', 0x0405, (0x03, None))]))
    # --- disconnection
    S.append(('disconnect/le/peer-present', 'link1conn', [('cut', disc('le'))], [DISC]))
    S.append(('disconnect/le-peripheral/peer-present', 'link1conn_p', [('cut', disc('le'))], [DISC]))
    S.append(('disconnect/classic/peer-present', 'link2conn', [('cut', disc('classic'))], [DISC]))
    S.append(('disconnect/le/peer-gone', 'peer_gone', [('cut', disc('le'))], [DISC]))
    S.append(('disconnect/unknown-handle', 'link1conn', [('cut', disc(0x0123))], []))
    S.append(('disconnect/cis-configured-not-established', 'link2conn', [('cut', disc('cis'))], []))
    # --- remote features / name / encryption
    S.append(('le-read-remote-features/peer-present', 'link1conn',
              [('cut', hci.HCI_LE_Read_Remote_Features_Command(connection_handle='le'))], [(0x3E, 0x04)]))
    S.append(('le-read-remote-features/peripheral', 'link1conn_p',
              [('cut', hci.HCI_LE_Read_Remote_Features_Command(connection_handle='le'))], [(0x3E, 0x04)]))
    S.append(('le-read-remote-features/peer-gone', 'peer_gone',
              [('cut', hci.HCI_LE_Read_Remote_Features_Command(connection_handle='le'))], [(0x3E, 0x04)]))
    # the peer's host disconnects while the request is on its way: the procedure ends with the connection
    S.append(('le-read-remote-features/peer-disconnecting', 'link1conn',
              [('p2', disc('peer-le')), ('cut', hci.HCI_LE_Read_Remote_Features_Command(connection_handle='le'))], [DISC]))
    S.append(('le-enable-encryption/peer-disconnecting', 'link1conn',
              [('p2', disc('peer-le')), ('cut', enc('le'))], [(0x08, None), DISC]))
    S.append(('disconnect/le/peer-disconnecting', 'link1conn',
              [('p2', disc('peer-le')), ('cut', disc('le'))], [DISC]))
    S.append(('le-read-remote-features/unknown-handle', 'link1conn',
              [('cut', hci.HCI_LE_Read_Remote_Features_Command(connection_handle=0x0123))], []))
    S.append(('remote-name/peer-present', 'link2conn',
              [('cut', hci.HCI_Remote_Name_Request_Command(bd_addr=A(ADDR_P3), page_scan_repetition_mode=0,
                                                           reserved=0, clock_offset=0))], [(0x07, None)]))
    S.append(('remote-name/peer-absent', 'link1',
              [('cut', hci.HCI_Remote_Name_Request_Command(bd_addr=A(ADDR_ABSENT), page_scan_repetition_mode=0,
                                                           reserved=0, clock_offset=0))], [(0x07, None)]))
    S.append(('le-enable-encryption/peer-present', 'link1conn', [('cut', enc('le'))], [(0x08, None)]))
    S.append(('le-enable-encryption/peer-gone', 'peer_gone', [('cut', enc('le'))], [(0x08, None)]))
    S.append(('le-enable-encryption/unknown-handle', 'link1conn', [('cut', enc(0x0123))], []))
    # --- CIS
    S.append(('create-cis/peer-accepts', 'link2conn',
              [('cut', hci.HCI_LE_Create_CIS_Command(cis_connection_handle=['cis'], acl_connection_handle=['le'])),
               ('settle',), ('p2', 'accept-cis')], [(0x3E, 0x19)]))
    S.append(('create-cis/unknown-acl', 'link2conn',
              [('cut', hci.HCI_LE_Create_CIS_Command(cis_connection_handle=['cis'], acl_connection_handle=[0x0123]))], []))
    S.append(('create-cis/established/disconnect', 'link2conn',
              [('cut', hci.HCI_LE_Create_CIS_Command(cis_connection_handle=['cis'], acl_connection_handle=['le'])),
               ('settle',), ('p2', 'accept-cis'), ('settle',), ('clear',), ('cut', disc('cis'))], [DISC]))
    return S


# open-ended by specification, excluded by name (no timers in the virtual controller):
#   le-create/peer-absent/not-cancelled, classic-create/peer-present-host-never-answers,
#   create-cis/peer-host-never-answers
PROC_EXCLUDED = ['le-create/peer-absent/not-cancelled', 'classic-create/peer-present/host-never-answers',
                 'create-cis/peer-present/host-never-answers']


def _resolve_handles(cmd_obj, cut, target=None):
    """replace the symbolic handles 'le' / 'classic' / 'cis' (of the CUT) and 'peer-le' (of the
    controller the command is sent to) by the live ones"""
    def res(v):
        if v == 'peer-le':
            return next(iter(target.le_connections.values())).handle if target.le_connections else 0x0EFE
        if v == 'le':
            return next(iter(cut.le_connections.values())).handle if cut.le_connections else 0x0EFE
        if v == 'classic':
            return next(iter(cut.classic_connections.values())).handle if cut.classic_connections else 0x0EFE
        if v == 'cis':
            return sorted(cut.central_cis_links)[0] if cut.central_cis_links else 0x0EFE
        return v
    changed = False
    for k, v in list(cmd_obj.__dict__.items()):
        if isinstance(v, str) and v in ('le', 'classic', 'cis', 'peer-le'):
            setattr(cmd_obj, k, res(v))
            changed = True
        elif isinstance(v, list) and any(isinstance(x, str) for x in v):
            setattr(cmd_obj, k, [res(x) for x in v])
            changed = True
    if changed:
        cmd_obj.parameters = b''      # re-serialised from the fields on demand
    return cmd_obj


async def _run_proc(situation, steps):
    import copy
    from bumble import hci
    base = 'link2conn' if situation == 'link2conn-noclassic' else situation
    sit = await build_situation(base)
    cut, sink, peers = sit['cut'], sit['sink'], sit['peers']
    if situation == 'link2conn-noclassic':
        # drop the classic connection made by the situation builder
        for p in [cut] + peers:
            p.classic_connections.clear()
        sink.packets.clear()
    who = {'cut': cut, 'p2': peers[0] if peers else None, 'p3': peers[1] if len(peers) > 1 else None}
    log = []
    for st in steps:
        if st[0] == 'settle':
            await settle()
            continue
        if st[0] == 'clear':
            sink.packets.clear()
            log.clear()
            continue
        target = who[st[0]]
        if st[1] == 'accept-cis':
            hs = sorted(target.peripheral_cis_links)
            cmd = hci.HCI_LE_Accept_CIS_Request_Command(connection_handle=hs[0] if hs else 0x0EFE)
        else:
            cmd = _resolve_handles(copy.copy(st[1]), cut, target)
        try:
            target.on_packet(bytes(cmd))
            exc = None
        except Exception as e:      # noqa
            exc = type(e).__name__
        if st[0] == 'cut':
            log.append([cmd.op_code, exc])
    await settle(60)
    return log, [bytes(p) for p in sink.packets]


def proc_oracle(name, expect, log, packets):
    """every command of the CUT answered once; a command answered with status PENDING /
    SUCCESS that starts a procedure is followed by the completion event(s) in `expect`."""
    replies = [reply_of(p) for p in packets if reply_of(p)]
    for op, exc in log:
        if exc:
            return (f'C:{name}:exception', f'{exc} escaped Controller.on_packet for command {op:#06x}')
        mine = [r for r in replies if r[1] == op]
        if len(mine) != sum(1 for o, _ in log if o == op):
            return (f'C:{name}:replies', f'command {op:#06x}: {len(mine)} reply events')
    codes = [event_code(p) for p in packets]
    counted = [e for e in expect if e[0] == 'accepted']
    expect = [e for e in expect if e[0] != 'accepted']
    for _, op, ev in counted:
        accepted = sum(1 for r in replies if r[1] == op and r[0] == 'CS' and r[3] == 0)
        if codes.count(ev) < accepted:
            return (f'C:{name}:no-completion', f'{accepted} commands {op:#06x} accepted with status PENDING, '
                                               f'{codes.count(ev)} completion events code={ev[0]:#04x}')
    for e in set(expect):
        if codes.count(e) < expect.count(e):
            return (f'C:{name}:no-completion', f'completion event code={e[0]:#04x} subevent={e[1]} expected {expect.count(e)}x, '
                                               f'arrived {codes.count(e)}x; events seen: {[c for c in codes if c]}')
    if not expect and not counted:
        # the command must have been refused: no reply with status 0 (pending / accepted)
        last = [r for r in replies if r[1] == log[-1][0]]
        if last and last[-1][0] == 'CS' and last[-1][3] == 0:
            return (f'C:{name}:pending-without-completion',
                    f'command {log[-1][0]:#06x} accepted with status PENDING but no procedure can complete')
    return None


def campaign_proc(ctx):
    for name, situation, steps, expect in proc_scenarios():
        (log, packets), errors = run_async(_run_proc, situation, steps)
        ctx.case(('C', name), True, None)
        ctx.count('C.scenarios')
        ctx.count('C.callback_errors', len(errors))
        bad = proc_oracle(name, expect, log, packets)
        if bad:
            ctx.violation(bad[0], f'procedure scenario {name}: {bad[1]}', {'kind': 'proc', 'name': name})
    ctx.extra['C_excluded_open_ended'] = PROC_EXCLUDED


# ============================================================================= (C2) procedure model
# random settled sequences of procedure commands and peer actions on CUT + two peers, compared
# with Model/CtrlProc.v (events at the CUT's host), and the completion oracle over the events.
PADDR = {2: ADDR_P2, 3: ADDR_P3, 9: ADDR_ABSENT}


def gen_proc_ops(rng, n, bursts=False):
    ops = []
    for _ in range(n):
        if bursts and rng.chance(1, 4):
            inner = [x for x in gen_proc_ops(rng, rng.range(2, 4))
                     if x[0] not in ('Adv', 'AdvStopped', 'AdvRival', 'PeerAccept', 'Remove')]
            if len(inner) >= 2:
                ops.append(['burst', inner])
                continue
        r = rng.below(100)
        a = rng.choice([2, 2, 3, 3, 9])
        h = rng.choice([1, 1, 2, 2, 3, 0x0123])
        if r < 14:
            ops.append(['LeCreate', rng.below(2), a])
        elif r < 22:
            ops.append(['LeCancel'])
        elif r < 34:
            ops.append(['Adv', rng.choice([2, 3])])
        elif r < 37:
            ops.append(['AdvStopped', rng.choice([2, 3])])
        elif r < 40:
            ops.append(['AdvRival', rng.choice([2, 3])])
        elif r < 50:
            ops.append(['Disconnect', h])
        elif r < 62:
            ops.append(['ReadFeat', h])
        elif r < 70:
            ops.append(['Encrypt', h])
        elif r < 80:
            ops.append(['ClassicCreate', a])
        elif r < 86:
            ops.append(['RemoteName', a])
        elif r < 92:
            ops.append(['PeerAccept', rng.choice([2, 3])])
        elif r < 98:
            ops.append(['PeerDisconnect', rng.choice([2, 3])])
        else:
            ops.append(['Remove', rng.choice([2, 3])])
    return ops


def _abs_event(p):
    """CUT host event -> the code list of Model/CtrlProc.v out_code, or None for an event the model
    does not describe"""
    addr_of = {bytes.fromhex(v.replace(':', ''))[::-1]: k for k, v in PADDR.items()}
    r = reply_of(p)
    if r:
        return [0 if r[0] == 'CS' else 1, r[1], r[3]]
    code = event_code(p)
    if code == (0x3E, 0x01):
        return [2, p[4], p[5] | (p[6] << 8), addr_of.get(bytes(p[9:15]), -1)]
    if code == (0x05, None):
        return [3, p[4] | (p[5] << 8)]
    if code == (0x3E, 0x04):
        return [4, p[5] | (p[6] << 8)]
    if code == (0x08, None):
        return [5, p[4] | (p[5] << 8)]
    if code == (0x03, None):
        return [6, p[3], p[4] | (p[5] << 8), addr_of.get(bytes(p[6:12]), -1)]
    if code == (0x07, None):
        return [7, p[3], addr_of.get(bytes(p[4:10]), -1)]
    return None


LAST_PROC_STATS = {}


async def _run_proc_ops(ops):
    """ops: steps; a step ['burst', [step, ...]] issues its steps back to back, without giving the
    link a loop turn in between (commands while PDUs are in flight); every other step is followed by
    a settle.  Returns (groups of executed model ops as Coq text, abstract events at the CUT host,
    oracle ledger, events the model does not describe)."""
    from bumble import hci, link as blink
    from bumble.controller import Controller
    A = lambda k: hci.Address(PADDR[k], hci.Address.PUBLIC_DEVICE_ADDRESS)
    the_link = blink.LocalLink()
    sink = Sink()
    cut = Controller('cut', host_sink=sink, link=the_link, public_address=ADDR_CUT)
    peers = {}
    for k in (2, 3):
        ps = Sink()
        peers[k] = Controller(f'p{k}', host_sink=ps, link=the_link, public_address=PADDR[k])
        peers[k].test_sink = ps
    rival = Controller('rival', host_sink=Sink(), link=the_link, public_address='C0:00:00:00:00:04')
    races = [0]
    lost = [0]                   # connections the CUT announced and whose ConnectInd came too late
    removed = set()
    model_groups = []
    issued = {}                  # opcode -> [(kind, step), ...] commands sent to the CUT, oldest first
    flat = []
    for step in ops:
        if step[0] == 'burst':
            inner = [x for x in step[1] if x[0] not in ('Adv', 'AdvStopped', 'AdvRival', 'PeerAccept', 'Remove', 'burst')]
            for k, x in enumerate(inner):
                flat.append((x, k == 0, k == len(inner) - 1))
        else:
            flat.append((step, True, True))
    pending_classic = set()      # addresses with an accepted, unconcluded Create Connection
    br_conn = set()
    ledger = []                  # [proc name, key, concluded?, open_ended?]
    seen = 0

    def adv_params():
        return hci.HCI_LE_Set_Advertising_Parameters_Command(
            advertising_interval_min=0xFFFF, advertising_interval_max=0xFFFF, advertising_type=0,
            own_address_type=0, peer_address_type=0, peer_address=hci.Address.ANY,
            advertising_channel_map=7, advertising_filter_policy=0)

    for o, first, last in flat:
        kind = o[0]
        cmd = None
        if first:
            model_groups.append([])
        model_ops = model_groups[-1]
        if kind == 'LeCreate':
            if o[1]:
                cmd = hci.HCI_LE_Extended_Create_Connection_Command(
                    initiator_filter_policy=0, own_address_type=0, peer_address_type=0, peer_address=A(o[2]),
                    initiating_phys=1, scan_intervals=[16], scan_windows=[16], connection_interval_mins=[6],
                    connection_interval_maxs=[6], max_latencies=[0], supervision_timeouts=[10],
                    min_ce_lengths=[0], max_ce_lengths=[0])
            else:
                cmd = hci.HCI_LE_Create_Connection_Command(
                    le_scan_interval=16, le_scan_window=16, initiator_filter_policy=0, peer_address_type=0,
                    peer_address=A(o[2]), own_address_type=0, connection_interval_min=6, connection_interval_max=6,
                    max_latency=0, supervision_timeout=10, min_ce_length=0, max_ce_length=0)
            model_ops.append(f'Cmd (LeCreate {"true" if o[1] else "false"} {o[2]})')
        elif kind == 'LeCancel':
            cmd = hci.HCI_LE_Create_Connection_Cancel_Command()
            model_ops.append('Cmd LeCancel')
        elif kind == 'Disconnect':
            cmd = hci.HCI_Disconnect_Command(connection_handle=o[1], reason=0x13)
            model_ops.append(f'Cmd (Disconnect {o[1]})')
        elif kind == 'ReadFeat':
            cmd = hci.HCI_LE_Read_Remote_Features_Command(connection_handle=o[1])
            model_ops.append(f'Cmd (ReadFeat {o[1]})')
        elif kind == 'Encrypt':
            cmd = hci.HCI_LE_Enable_Encryption_Command(connection_handle=o[1], random_number=bytes(8),
                                                       encrypted_diversifier=0, long_term_key=bytes(16))
            model_ops.append(f'Cmd (Encrypt {o[1]})')
        elif kind == 'ClassicCreate':
            cmd = hci.HCI_Create_Connection_Command(bd_addr=A(o[1]), packet_type=0xCC18, page_scan_repetition_mode=0,
                                                    reserved=0, clock_offset=0, allow_role_switch=1)
            model_ops.append(f'Cmd (ClassicCreate {o[1]})')
        elif kind == 'RemoteName':
            cmd = hci.HCI_Remote_Name_Request_Command(bd_addr=A(o[1]), page_scan_repetition_mode=0, reserved=0,
                                                      clock_offset=0)
            model_ops.append(f'Cmd (RemoteName {o[1]})')
        elif kind in ('Adv', 'AdvStopped', 'AdvRival'):
            if o[1] in removed:
                continue
            p = peers[o[1]]
            cut_addr = hci.Address(ADDR_CUT, hci.Address.PUBLIC_DEVICE_ADDRESS)
            had = bool(cut.le_connections.get(A(o[1])))
            if kind == 'AdvRival' and not rival.pending_le_connection and not rival.le_connections.get(A(o[1])):
                # a second central waits for the same advertiser: one of the two ConnectInds comes too late
                rival.on_packet(bytes(hci.HCI_LE_Create_Connection_Command(
                    le_scan_interval=16, le_scan_window=16, initiator_filter_policy=0, peer_address_type=0,
                    peer_address=A(o[1]), own_address_type=0, connection_interval_min=6, connection_interval_max=6,
                    max_latency=0, supervision_timeout=10, min_ce_length=0, max_ce_length=0)))
            p.on_packet(bytes(adv_params()))
            p.on_packet(bytes(hci.HCI_LE_Set_Advertising_Enable_Command(advertising_enable=1)))
            if kind == 'AdvStopped':
                # the host of the advertiser disables advertising while the CUT's ConnectInd is in flight
                for _ in range(8):
                    if not had and cut.le_connections.get(A(o[1])):
                        break
                    await asyncio.sleep(0)
                p.on_packet(bytes(hci.HCI_LE_Set_Advertising_Enable_Command(advertising_enable=0)))
                await settle(10)
                model_ops.append(f'Adv {o[1]}')
                model_ops.append(f'PeerAdvOff {o[1]}')
            else:
                await settle(10)
                p.on_packet(bytes(hci.HCI_LE_Set_Advertising_Enable_Command(advertising_enable=0)))
                model_ops.append(f'Adv {o[1]}')
                created = not had and any((_abs_event(x) or [None])[0] == 2 and _abs_event(x)[1] == 0
                                          for x in sink.packets[seen:])
                if created and cut_addr not in p.le_connections:
                    # the rival's ConnectInd got there first: for the CUT the advertiser had stopped
                    model_ops.append(f'PeerAdvOff {o[1]}')
                    races[0] += 1
                model_groups.append([f'PeerAdvOff {o[1]}'])
            if not had and any((_abs_event(x) or [None])[0] == 2 and _abs_event(x)[1] == 0 for x in sink.packets[seen:]) \
                    and cut_addr not in p.le_connections:
                lost[0] += 1
            if not had and not any((_abs_event(x) or [None])[0] == 2 for x in sink.packets[seen:]):
                # the peer advertised, no link to it existed: a request accepted for it can no longer
                # count as "waiting for the advertisement"
                for e in ledger:
                    if e[0] == 'le-create' and e[1] == o[1] and not e[2]:
                        e[3] = False
        elif kind == 'PeerAccept':
            p = peers[o[1]]
            reqs = [x for x in p.test_sink.packets if event_code(x) == (0x04, None)]
            if o[1] in removed or not reqs:
                continue
            p.test_sink.packets.clear()
            p.on_packet(bytes(hci.HCI_Accept_Connection_Request_Command(
                bd_addr=hci.Address(ADDR_CUT, hci.Address.PUBLIC_DEVICE_ADDRESS), role=1)))
            model_ops.append(f'PeerAccept {o[1]}')
        elif kind == 'PeerDisconnect':
            p = peers[o[1]]
            mine = p.le_connections.get(hci.Address(ADDR_CUT, hci.Address.PUBLIC_DEVICE_ADDRESS))
            if o[1] not in removed and mine:
                p.on_packet(bytes(hci.HCI_Disconnect_Command(connection_handle=mine.handle, reason=0x13)))
                model_ops.append(f'PeerDisconnect {o[1]}')
        elif kind == 'Remove':
            if o[1] in removed:
                continue
            the_link.remove_controller(peers[o[1]])
            removed.add(o[1])
            model_ops.append(f'Remove {o[1]}')
        if cmd is not None:
            issued.setdefault(cmd.op_code, []).append((kind, o))
            try:
                cut.on_packet(bytes(cmd))
            except Exception as e:      # noqa
                ledger.append(['exception', type(e).__name__, False, False])
        if not last:
            continue
        await settle(10)
        # completion ledger, from the CUT's host events only
        new = [_abs_event(p) for p in sink.packets[seen:]]
        seen = len(sink.packets)
        for ev in new:
            if ev is None or ev[0] not in (0, 1) or not issued.get(ev[1]):
                continue
            kind_i, oi = issued[ev[1]].pop(0)       # replies come in command order
            if kind_i == 'LeCancel' and ev[0] == 1 and ev[2] == 0x0C:
                for e in ledger:
                    if e[0] == 'le-create' and not e[2]:
                        e[3] = False        # nothing pending any more, and no completion event was seen
            if ev[0] == 0 and ev[2] == 0:
                if kind_i == 'LeCreate':
                    ledger.append(['le-create', oi[2], False, True])
                elif kind_i == 'Disconnect':
                    ledger.append(['disconnect', oi[1], False, False])
                elif kind_i == 'ReadFeat':
                    gone = any(c.handle == oi[1] and k in removed for k in (2, 3)
                               for c in cut.le_connections.values() if bytes(c.peer_address) == bytes(A(k)))
                    ledger.append(['le-read-remote-features', oi[1], False, False, gone])
                elif kind_i == 'Encrypt':
                    ledger.append(['le-enable-encryption', oi[1], False, False])
                elif kind_i == 'ClassicCreate':
                    ledger.append(['classic-create', oi[1], False, True])
                    pending_classic.add(oi[1])
                elif kind_i == 'RemoteName':
                    ledger.append(['remote-name', oi[1], False, False])
        for ev in new:
            if ev is None:
                continue

            def conclude(name, key):
                for e in ledger:
                    if e[0] == name and e[1] == key and not e[2]:
                        e[2] = True
                        return
            if ev[0] == 2:
                for e in ledger:
                    if e[0] == 'le-create' and not e[2]:
                        e[2] = True
                if ev[1] == 0 and ev[3] in (2, 3) and ev[3] not in removed and \
                        hci.Address(ADDR_CUT, hci.Address.PUBLIC_DEVICE_ADDRESS) not in peers[ev[3]].le_connections:
                    ledger.append(['le-connection-announced', ev[2], False, False])
            elif ev[0] == 3:
                conclude('disconnect', ev[1])
                conclude('le-connection-announced', ev[1])
                for e in ledger:         # procedures on the connection end with it
                    if e[0] in ('le-read-remote-features',) and e[1] == ev[1]:
                        e[2] = True
            elif ev[0] == 4:
                conclude('le-read-remote-features', ev[1])
            elif ev[0] == 5:
                conclude('le-enable-encryption', ev[1])
            elif ev[0] == 6:
                conclude('classic-create', ev[3])
                pending_classic.discard(ev[3])
                if ev[1] == 0:
                    br_conn.add(ev[3])
            elif ev[0] == 7:
                conclude('remote-name', ev[2])
        # a disconnected classic connection may be created again
        for k in list(br_conn):
            if not any(bytes(c.peer_address) == bytes(A(k)) and c.handle != 0 for c in cut.classic_connections.values()):
                br_conn.discard(k)
    events = [_abs_event(p) for p in sink.packets]
    unknown = [p.hex() for p in sink.packets if _abs_event(p) is None]
    LAST_PROC_STATS.update({'races_lost_to_rival': races[0], 'connectind_too_late': lost[0]})
    return [g for g in model_groups if g], events, ledger, unknown


def campaign_proc_model(ctx):
    rng = ctx.rng
    cases = [
        # corpus: D03d (cancel concludes and clears), D03e, D03g, race with a disconnecting peer
        [['LeCreate', 0, 9], ['LeCancel'], ['LeCreate', 1, 2], ['Adv', 2], ['ReadFeat', 1], ['Disconnect', 1]],
        [['Disconnect', 0x0123], ['ClassicCreate', 9], ['RemoteName', 9], ['ClassicCreate', 3], ['PeerAccept', 3],
         ['RemoteName', 3], ['Disconnect', 1]],
        [['LeCreate', 0, 2], ['Adv', 2], ['PeerDisconnect', 2], ['ReadFeat', 1], ['Encrypt', 1]],
        [['LeCreate', 0, 2], ['Adv', 2], ['Remove', 2], ['Encrypt', 1], ['Disconnect', 1]],
    ]
    # commands issued while PDUs are in flight (no loop turn between the steps of a burst)
    cases += [
        [['LeCreate', 0, 2], ['Adv', 2], ['burst', [['PeerDisconnect', 2], ['ReadFeat', 1]]]],
        [['LeCreate', 0, 2], ['Adv', 2], ['burst', [['ReadFeat', 1], ['Disconnect', 1], ['LeCreate', 0, 2]]], ['Adv', 2],
         ['ReadFeat', 1]],
        [['LeCreate', 0, 2], ['Adv', 2], ['burst', [['ReadFeat', 1], ['ReadFeat', 1], ['Encrypt', 1], ['PeerDisconnect', 2],
                                                    ['Disconnect', 1]]]],
        [['burst', [['ClassicCreate', 3], ['ClassicCreate', 3], ['RemoteName', 3], ['LeCreate', 1, 2], ['LeCancel']]],
         ['PeerAccept', 3], ['burst', [['Disconnect', 1], ['ClassicCreate', 3]]]],
    ]
    # seeded C03-g: a second LE Create Connection (legacy / extended) towards a peer that is still connected,
    # that peer advertises while the old link is up; then (i) the old link is dropped and the peer advertises
    # again, (ii) the host cancels: exactly one LE Connection Complete concludes the accepted request
    cases += [
        [['LeCreate', 0, 2], ['Adv', 2], ['LeCreate', 1, 2], ['Adv', 2], ['Disconnect', 1], ['Adv', 2], ['ReadFeat', 1]],
        [['LeCreate', 1, 2], ['Adv', 2], ['LeCreate', 0, 2], ['Adv', 2], ['LeCancel'], ['LeCancel']],
        [['LeCreate', 0, 3], ['Adv', 3], ['LeCreate', 0, 3], ['Adv', 3], ['Adv', 3], ['PeerDisconnect', 3], ['Adv', 3]],
        [['LeCreate', 1, 2], ['Adv', 2], ['LeCreate', 1, 2], ['Adv', 2], ['LeCreate', 0, 3], ['LeCancel'], ['LeCreate', 0, 3],
         ['Adv', 3]],
    ]
    # D06d: the advertiser stops while the ConnectInd is in flight; two centrals wait for one advertiser
    cases += [
        [['LeCreate', 0, 2], ['AdvStopped', 2], ['ReadFeat', 1], ['LeCreate', 0, 2], ['Adv', 2], ['ReadFeat', 1]],
        [['LeCreate', 1, 2], ['AdvRival', 2], ['ReadFeat', 1], ['Disconnect', 1], ['LeCreate', 0, 2], ['Adv', 2]],
        [['LeCreate', 0, 3], ['AdvRival', 3], ['burst', [['Encrypt', 1], ['Disconnect', 1]]], ['LeCreate', 0, 3],
         ['AdvStopped', 3]],
    ]
    for k in range(ctx.n(250, 10000)):
        cases.append(gen_proc_ops(rng, rng.choice([3, 6, 10, 16]), bursts=(k % 2 == 1)))
    runs, exprs = [], []
    for ops in cases:
        (groups, events, ledger, unknown), errors = run_async(_run_proc_ops, ops)
        for kk, vv in LAST_PROC_STATS.items():
            ctx.count('C2.' + kk, vv)
        runs.append((ops, groups, events, ledger, unknown, errors))
        exprs.append('groups_obs [2; 3] [' + '; '.join('[' + '; '.join(g) + ']' for g in groups) + ']')
    model = ctx.coq_eval(['Model.CtrlProc'], exprs)
    for (ops, groups, events, ledger, unknown, errors), m in zip(runs, model):
        model_ops = [x for g in groups for x in g]
        ctx.case(('C2', ops), len(model_ops) >= 3, {'kind': 'procops', 'ops': ops} if ctx.evaluations % 200 == 11 else None)
        ctx.count('C2.sequences')
        ctx.count('C2.bursts', sum(1 for g in groups if len(g) > 1))
        ctx.count('C2.ops', len(model_ops))
        ctx.count('C2.callback_errors', len(errors))
        replay = {'kind': 'procops', 'ops': ops}
        mout, mopen, mquiet, mended = m
        if unknown or [list(x) for x in mout] != events:
            ctx.disagree('CtrlProc events', replay, [list(x) for x in mout], events + [['unknown', u] for u in unknown])
        # oracle: every accepted procedure concluded, unless open-ended by specification
        for e in ledger:
            if e[0] == 'exception':
                ctx.violation(f'C2:exception:{e[1]}', f'procedure ops {ops}: {e[1]} escaped Controller.on_packet', replay)
                break
            if not e[2] and not e[3]:
                gone = len(e) > 4 and e[4]
                sig = f'C:{e[0]}/{"peer-gone" if gone else "sequence"}:no-completion'
                ctx.violation(sig, f'procedure ops {ops}: {e[0]} {e[1]} accepted but never concluded', replay)
                break


# ============================================================================= (C3) CIS set-up model
# CUT (central, LE ACL handle 1 to peer p2) + real peer: random sequences (with bursts) of Set CIG /
# Remove CIG / Create CIS / Disconnect and peer actions, compared with Model/CisProc.v.
def gen_cis_ops(rng, n, bursts):
    def one():
        r = rng.below(100)
        if r < 18:
            return ['SetCig', rng.choice([1, 1, 2]), rng.choice([[1], [1, 2], [2, 3], [1, 2, 3]])]
        if r < 24:
            return ['RemoveCig', rng.choice([1, 2])]
        if r < 50:
            return ['CreateCis', rng.choice([2, 2, 3, 4, 5]), rng.choice([1, 1, 1, 7])]
        if r < 66:
            return ['DisconnectH', rng.choice([2, 3, 4, 1, 9])]
        if r < 90:
            return ['PeerAcceptCis']
        return ['PeerAclDisconnect']
    ops = []
    for _ in range(n):
        if bursts and rng.chance(1, 4):
            inner = [x for x in (one() for _ in range(rng.range(2, 4))) if x[0] != 'PeerAcceptCis']
            if len(inner) >= 2:
                ops.append(['burst', inner])
                continue
        ops.append(one())
    return ops


def _abs_cis_event(p):
    r = reply_of(p)
    if r:
        if r[0] == 'CC' and r[1] == 0x2062:
            n = p[8]
            return [8, p[7]] + [p[9 + 2 * i] | (p[10 + 2 * i] << 8) for i in range(n)]
        if r[0] == 'CC' and r[1] == 0x2065:
            return [9, r[3]]
        if r[0] == 'CS':
            return [0, r[1], r[3]]
        return None
    code = event_code(p)
    if code == (0x3E, 0x19):
        return [10, p[5] | (p[6] << 8)]
    if code == (0x05, None):
        return [3, p[4] | (p[5] << 8)]
    return None


async def _run_cis_ops(ops):
    from bumble import hci
    sit = await build_situation('link1conn')
    cut, sink, peer = sit['cut'], sit['sink'], sit['peers'][0]
    psink = peer.test_sink
    psink.packets.clear()
    groups = []
    open_cis = {}               # cis handle -> cig, creations accepted and not concluded (harness ledger)
    link_cig = {}               # cis handle -> cig as configured
    ledger = []                 # [cis handle, concluded?]
    issued = []
    seen = 0
    pseen = 0
    peer_pending = []           # peer's unanswered CIS requests: [peer cis handle, cig, cis]
    burst_cigs = set()
    flat = []
    for step in ops:
        if step[0] == 'burst':
            inner = [x for x in step[1] if x[0] not in ('PeerAcceptCis', 'burst')]
            for k, x in enumerate(inner):
                flat.append((x, k == 0, k == len(inner) - 1))
        else:
            flat.append((step, True, True))

    def peer_events():
        nonlocal pseen
        for p in psink.packets[pseen:]:
            code = event_code(p)
            if code == (0x3E, 0x1A):
                peer_pending.append([p[6] | (p[7] << 8), p[8], p[9], True])
            elif code == (0x05, None):
                h = p[4] | (p[5] << 8)
                for e in peer_pending:
                    if e[0] == h:
                        peer_pending.remove(e)
                        break
        pseen = len(psink.packets)

    for o, first, last in flat:
        if first:
            groups.append([])
        g = groups[-1]
        kind = o[0]
        cmd = None
        if kind in ('SetCig', 'RemoveCig'):
            if any(c == o[1] for c in open_cis.values()) or burst_cigs:
                pass            # hypothesis of the model: not while one of its CIS is being created
            elif kind == 'SetCig':
                n = len(o[2])
                cmd = hci.HCI_LE_Set_CIG_Parameters_Command(
                    cig_id=o[1], sdu_interval_c_to_p=10000, sdu_interval_p_to_c=10000, worst_case_sca=0, packing=0,
                    framing=0, max_transport_latency_c_to_p=10, max_transport_latency_p_to_c=10, cis_id=list(o[2]),
                    max_sdu_c_to_p=[40] * n, max_sdu_p_to_c=[40] * n, phy_c_to_p=[1] * n, phy_p_to_c=[1] * n,
                    rtn_c_to_p=[1] * n, rtn_p_to_c=[1] * n)
                g.append(f'CCmd (SetCig {o[1]} {coq_list(o[2], coq_z)})')
            else:
                cmd = hci.HCI_LE_Remove_CIG_Command(cig_id=o[1])
                g.append(f'CCmd (RemoveCig {o[1]})')
        elif kind == 'CreateCis':
            burst_cigs.add(0)       # may be accepted: known only after the group has settled
            cmd = hci.HCI_LE_Create_CIS_Command(cis_connection_handle=[o[1]], acl_connection_handle=[o[2]])
            g.append(f'CCmd (CreateCis {o[1]} {o[2]})')
        elif kind == 'DisconnectH':
            cmd = hci.HCI_Disconnect_Command(connection_handle=o[1], reason=0x13)
            g.append(f'CCmd (DisconnectH {o[1]})')
        elif kind == 'PeerAcceptCis':
            peer_events()
            todo = [e for e in peer_pending if e[3]]
            if todo:
                todo[0][3] = False
                peer.on_packet(bytes(hci.HCI_LE_Accept_CIS_Request_Command(connection_handle=todo[0][0])))
                g.append('PeerAcceptCis')
        elif kind == 'PeerAclDisconnect':
            if peer.le_connections:
                hnd = next(iter(peer.le_connections.values())).handle
                peer.on_packet(bytes(hci.HCI_Disconnect_Command(connection_handle=hnd, reason=0x13)))
                g.append('PeerAclDisconnect')
        if cmd is not None:
            issued.append((kind, o))
            try:
                cut.on_packet(bytes(cmd))
            except Exception as e:      # noqa
                ledger.append(['exception', type(e).__name__])
        if not last:
            continue
        await settle(10)
        burst_cigs.clear()
        peer_events()
        for p in sink.packets[seen:]:
            ev = _abs_cis_event(p)
            if ev is None:
                continue
            if ev[0] in (0, 8, 9) and issued:
                kind_i, oi = issued.pop(0)
                if ev[0] == 8:
                    for h in [k for k, c in link_cig.items() if c == ev[1]]:
                        del link_cig[h]
                    for h in ev[2:]:
                        link_cig[h] = ev[1]
                elif ev[0] == 9 and ev[1] == 0:
                    for h in [k for k, c in link_cig.items() if c == oi[1]]:
                        del link_cig[h]
                elif ev[0] == 0 and ev[2] == 0 and kind_i == 'CreateCis':
                    ledger.append([oi[1], False])
                    open_cis[oi[1]] = link_cig.get(oi[1])
            elif ev[0] == 10:
                for e in ledger:
                    if e[0] == ev[1] and e[1] is False:
                        e[1] = True
                        break
                if not any(e[0] == ev[1] and e[1] is False for e in ledger):
                    open_cis.pop(ev[1], None)
            elif ev[0] == 3:
                for e in ledger:
                    if e[1] is False and (e[0] == ev[1] or ev[1] == 1):
                        e[1] = True
                if ev[1] == 1:
                    open_cis.clear()
                else:
                    open_cis.pop(ev[1], None)
        seen = len(sink.packets)
    peer_events()
    events = [_abs_cis_event(p) for p in sink.packets]
    unknown = [p.hex() for p in sink.packets if _abs_cis_event(p) is None]
    # still open at the end and not waiting for the peer's host
    waiting_cigcis = {(c, i) for _, c, i, unanswered in peer_pending if unanswered}
    stuck = []
    for e in ledger:
        if e[0] == 'exception':
            stuck.append(e)
        elif e[1] is False:
            lk = cut.central_cis_links.get(e[0])
            if lk is None or (lk.cig_id, lk.cis_id) not in waiting_cigcis:
                stuck.append(e)
    return [g for g in groups if g], events, stuck, unknown


def campaign_cis_model(ctx):
    rng = ctx.rng
    cases = [
        [['SetCig', 1, [1, 2]], ['CreateCis', 2, 1], ['PeerAcceptCis'], ['CreateCis', 3, 7], ['DisconnectH', 2],
         ['DisconnectH', 2], ['burst', [['CreateCis', 3, 1], ['DisconnectH', 1]]], ['PeerAcceptCis']],
        [['SetCig', 1, [1]], ['burst', [['CreateCis', 2, 1], ['PeerAclDisconnect']]], ['PeerAcceptCis']],
        [['SetCig', 1, [1]], ['CreateCis', 2, 1], ['PeerAclDisconnect'], ['PeerAcceptCis'], ['SetCig', 1, [1, 2]]],
        [['SetCig', 2, [3]], ['burst', [['CreateCis', 2, 1], ['CreateCis', 2, 1], ['DisconnectH', 2]]],
         ['PeerAcceptCis'], ['PeerAcceptCis'], ['RemoveCig', 2], ['RemoveCig', 2]],
    ]
    for k in range(ctx.n(100, 3000)):
        cases.append(gen_cis_ops(rng, rng.choice([3, 6, 10]), bursts=(k % 2 == 1)))
    runs, exprs = [], []
    for ops in cases:
        (groups, events, stuck, unknown), errors = run_async(_run_cis_ops, ops)
        runs.append((ops, groups, events, stuck, unknown, errors))
        exprs.append('cis_groups_obs [' + '; '.join('[' + '; '.join(g) + ']' for g in groups) + ']')
    model = ctx.coq_eval(['Model.CisProc'], exprs)
    for (ops, groups, events, stuck, unknown, errors), m in zip(runs, model):
        nops = sum(len(g) for g in groups)
        ctx.case(('C3', ops), nops >= 3, {'kind': 'cisops', 'ops': ops} if ctx.evaluations % 200 == 13 else None)
        ctx.count('C3.sequences')
        ctx.count('C3.ops', nops)
        ctx.count('C3.bursts', sum(1 for g in groups if len(g) > 1))
        ctx.count('C3.established', sum(1 for e in events if e and e[0] == 10))
        ctx.count('C3.callback_errors', len(errors))
        replay = {'kind': 'cisops', 'ops': ops}
        mout, mopen, mended = m
        if unknown or [list(x) for x in mout] != events:
            ctx.disagree('CisProc events', replay, [list(x) for x in mout], events + [['unknown', u] for u in unknown])
        for e in stuck:
            if e[0] == 'exception':
                ctx.violation(f'C3:exception:{e[1]}', f'CIS ops {ops}: {e[1]} escaped Controller.on_packet', replay)
            else:
                ctx.violation('C:create-cis/sequence:no-completion',
                              f'CIS ops {ops}: creation of CIS {e[0]} accepted but never concluded', replay)
            break


# ============================================================================= corpus
CORPUS_CTRL = [
    # D03a: unknown opcode
    ('link0', ['01ff3f00'], False),
    # D03b: registered asynchronous command without handler (Inquiry)
    ('link0', ['010104' + '05' + '338b9e0100'], False),
    # D03c: LE Create Connection with controller.link = None
    ('linknone', ['010d2019' + '10001000' + '00' + '00' + '665544332211' + '00' + '06000600' + '0000' + '0a00' + '00000000'], False),
    # D03e: Disconnect for a handle that matches nothing
    ('link1', ['01060403' + '2301' + '13'], False),
    # D03f: LE Read Local P-256 Public Key (asynchronous command whose handler returned parameters)
    ('link0', ['01252000'], False),
]


# ============================================================================= driver entry points
def regen(ctx):
    from translate import c03_skeleton
    text, info = c03_skeleton.translate()      # also loads the driver / vendor command classes
    ctx.write_gen('C03Skeleton', text)
    from translate import c03_hostshape, c03_procshape
    htext, hinfo = c03_hostshape.translate()
    ctx.write_gen('C03HostShape', htext)
    ptext, prows = c03_procshape.translate()
    ctx.write_gen('C03ProcShape', ptext)
    ctx.extra['B_host_shape'] = hinfo
    from translate import c03_synccalls
    stext, srows = c03_synccalls.translate()
    ctx.write_gen('C03SyncCalls', stext)
    ctx.extra['A_sync_may_raise_pairs'] = [[h, q] for h, _, hs in srows for q, r in hs if r]
    ctx.extra['C_functions_pinned'] = [n for n, _ in prows]
    rows = info['rows']
    ctx.extra['A_table'] = {
        'rows': len(rows),
        'sync': sum(1 for r in rows if r[2] == 'sync'),
        'async': sum(1 for r in rows if r[2] == 'async'),
        'named_without_class': sum(1 for r in rows if r[2] == 'none'),
        'with_handler': sum(1 for r in rows if r[3]),
        'default_handler': info['default'],
        'dispatch': info['dispatch'],
        'default_skeleton': info['default_sk'],
        'credits_status_complete': info['credits'],
        'asserts_ignored': info['stats']['assert'],
        'unknown_constructs': info['stats']['unknown'],
        'handlers_never_selected': info['orphans'],
    }


def run(ctx):
    ctx.rule = ('(A) every registered HCI command class x 8 controller situations (no link, link attribute None, '
                'link with 0/1/2 peers, LE central/peripheral connection, classic connection + CIG, peer removed) '
                'with field-spec-driven in-range/boundary parameters (handles biased to live/unknown, addresses to '
                'present/absent peers), grouped in sequences of 1-6 commands, a quarter sent as a burst, a third '
                'with an unregistered opcode + random bytes mixed in; non-trivial: every case (a real Controller '
                'answers); distinct by content. (B) 1-8 tasks x 1-3 commands through a real Host, controller = real '
                'Controller or scripted replies with 1..255 credits behind two FIFOs drained on seeded loop turns; '
                'two cases in five with seeded task cancellations (queued caller, owner before/after its response, finished task); non-trivial: >= 2 callers; plus every class through a real Host to a real Controller. (C) 32 named procedure '
                'scenarios on real controllers + LocalLink; random settled sequences of 7 procedure commands and 4 peer '
                'actions on CUT + 2 peers compared event by event with Model/CtrlProc.v; non-trivial: >= 3 executed steps.')
    ctx.assumptions += [
        'asyncio runs a coroutine atomically up to its next await (Model/HostCmd.v cuts _send_command there)',
        'the controller contract of (B) is what (A) establishes: one reply per command, in order, >= 1 credit, no '
        'unsolicited Command Complete/Status, no command with opcode 0 answered by Command Complete',
        'Python `assert` statements in handlers hold (the skeleton ignores them); exceptions raised inside expressions '
        'for particular parameter values are not visible to the skeleton: tested by the dynamic campaign only',
        'timers do not fire (frozen clock): LE connection to an absent peer that is not cancelled, and a classic / CIS '
        'request the peer host never answers, are open-ended by specification and excluded by name',
    ]
    ctx.trusted += [
        'tools/translate/c03_skeleton.py (AST -> skeleton; fail closed) and its reading of which calls send a '
        'Command Status / Command Complete event',
        'Model/HostCmd.v is a hand-written reading of host.py _send_command / on_command_processed / '
        'on_hci_command_complete_event, tied to the code by trace acceptance only; asyncio.Semaphore is a permit '
        'counter whose FIFO hand-over is left to the schedule; a cancellation is one atomic model step',
    ]
    from translate import c03_skeleton
    c03_skeleton.load_full_registry()
    model_obs = load_model_obs(ctx)
    # corpus first
    for sname, cmds, burst in CORPUS_CTRL:
        check_ctrl_case(ctx, sname, [bytes.fromhex(c) for c in cmds], burst, model_obs)
        ctx.count('A.corpus')
    if os.path.isdir(CORPUS):
        for f in sorted(os.listdir(CORPUS)):
            with open(os.path.join(CORPUS, f)) as fh:
                obj = json.load(fh)
            r = obj.get('replay', {})
            if r.get('kind') == 'ctrl':
                check_ctrl_case(ctx, r['situation'], [bytes.fromhex(c) for c in r['cmds']], r['burst'], model_obs)
                ctx.count('A.corpus')
    if not ctx.quick():
        # deeper complete evaluations than the ones Props/C03.v carries (per-run obligations)
        names = ['all_ok 6 (p_init [2; 3])', 'all_ok 6 connected_state', 'cis_all_ok 7 cis_configured']
        try:
            vals = ctx.coq_eval(['Model.CtrlProc', 'Model.CisProc'], names, shard=1, timeout=1500)
        except Exception as e:      # noqa
            vals = [repr(e)[:200]] * len(names)
        for n, v in zip(names, vals):
            ctx.obligations.append({'name': 'vm_compute: ' + n + ' = true', 'ok': v is True})
            if v is not True:
                ctx.disagree('bounded complete evaluation', n, True, v)
    campaign_proc(ctx)
    campaign_proc_model(ctx)
    campaign_cis_model(ctx)
    campaign_ctrl(ctx, model_obs)
    campaign_families(ctx, model_obs)
    campaign_host(ctx)
    campaign_host_all(ctx)


def search(ctx):
    """Called when a proof obligation or the correspondence broke and the campaigns found no
    oracle violation.  Drives the opcodes whose table entry is not well formed (every class
    if the model cannot be evaluated) in every situation: alone with many parameter draws,
    then after random prefixes of commands that have handlers (they set the controller state
    a handler path may depend on); then the host through many more schedules."""
    from bumble import hci
    from bumble.controller import Controller
    from translate import c03_skeleton
    c03_skeleton.load_full_registry()
    classes = dict(hci.HCI_Command.command_classes)
    try:
        bad = ctx.coq_eval(['Model.Skeleton', 'Gen.C03Skeleton'], ['bad_opcodes ctrl'])[0]
    except Exception:
        bad = []
    targets = [op for op in bad if op in classes] or sorted(classes)
    unknown_targets = [op for op in bad if op not in classes]
    with_handler = sorted(op for op, c in classes.items()
                          if hasattr(Controller, 'on_' + hci.HCI_Command.command_name(op).lower()))
    env = {'handles': [1, 2, 3, 4], 'addresses': [ADDR_P2, ADDR_P3, ADDR_ABSENT, ADDR_CUT, RND_P2]}
    rng = ctx.rng

    def draw(op):
        for _ in range(8):
            try:
                data = gen_command_bytes(rng, classes[op], env)
                hci.HCI_Packet.from_bytes(data)
                return data
            except Exception:
                continue
        return None

    for sname in SITUATIONS:
        for op in unknown_targets[:20]:
            if check_ctrl_case(ctx, sname, [bytes([1, op & 0xFF, op >> 8, 0])], False, None, record=False):
                return
        for op in targets:
            for _ in range(12 if len(targets) < 40 else 3):
                data = draw(op)
                if data and check_ctrl_case(ctx, sname, [data], False, None, record=False):
                    return
    for _ in range(400 if len(targets) < 40 else 40):
        for op in targets:
            prefix = [draw(rng.choice(with_handler)) for _ in range(rng.range(1, 6))]
            seq = [d for d in prefix if d] + [d for d in [draw(op)] if d]
            if check_ctrl_case(ctx, rng.choice(SITUATIONS), seq, False, None, record=False):
                return
    for i in range(2000):
        case = gen_host_case(rng, i)
        (trace, callers, hung), _ = run_async(_run_host_case, case)
        bad = host_oracle(trace, callers, hung)
        if bad:
            ctx.violation(bad[0], bad[1], case)
            return


def replay(ctx, obj):
    from translate import c03_skeleton
    c03_skeleton.load_full_registry()
    r = obj['replay']
    if r['kind'] == 'ctrl':
        packets = [bytes.fromhex(c) for c in r['cmds']]
        out, allr, errors = run_ctrl_case(r['situation'], packets, r['burst'])
        print('situation:', r['situation'], 'burst:', r['burst'])
        for p, o in zip(packets, out):
            print(' command', p.hex(), '-> escaped exception:', o[0], 'replies:', o[1])
        print(' all replies:', allr)
        print('oracle:', ctrl_oracle(packets, r['burst'], out, allr) or 'holds')
    elif r['kind'] == 'host':
        (trace, callers, hung), errors = run_async(_run_host_case, r)
        print('trace:', trace)
        print('callers:', callers, 'hung:', hung)
        print('oracle:', host_oracle(trace, callers, hung, r.get('expect_block', False)) or 'holds')
        labels, obs = trace_to_labels(trace)
        print('model:', ctx.coq_eval(['Model.HostCmd'], [f'accept_obs {labels}'])[0])
    elif r['kind'] == 'hostall':
        (results, max_out), errors = run_async(_run_host_all, [bytes.fromhex(c) for c in r['cmds']], r['ntasks'])
        print('max outstanding:', max_out)
        for (op, got), c in zip(results, r['cmds']):
            if got != op:
                print(f' command {c}: opcode {op:#06x} -> response {got}')
        print('oracle:', 'holds' if max_out <= 1 and all(op == got for op, got in results) else 'fails')
    elif r['kind'] == 'cisops':
        (groups, events, stuck, unknown), errors = run_async(_run_cis_ops, r['ops'])
        print('model schedule (groups, link drained after each):', groups)
        print('events at the host:', events, unknown)
        print('creations accepted and never concluded:', stuck)
        print('model:', ctx.coq_eval(['Model.CisProc'],
                                     ['cis_groups_obs [' + '; '.join('[' + '; '.join(g) + ']' for g in groups) + ']'])[0])
    elif r['kind'] == 'procops':
        (groups, events, ledger, unknown), errors = run_async(_run_proc_ops, r['ops'])
        print('model schedule (groups, link drained after each):', groups)
        print('events at the host:', events, unknown)
        print('ledger [procedure, key, concluded, open-ended]:', ledger)
        print('model:', ctx.coq_eval(['Model.CtrlProc'],
                                     ['groups_obs [2; 3] [' + '; '.join('[' + '; '.join(g) + ']' for g in groups) + ']'])[0])
    elif r['kind'] == 'proc':
        for name, situation, steps, expect in proc_scenarios():
            if name == r['name']:
                (log, packets), errors = run_async(_run_proc, situation, steps)
                print('commands (opcode, escaped exception):', log)
                print('events at the host:', [p.hex() for p in packets])
                print('oracle:', proc_oracle(name, expect, log, packets) or 'holds')
    return 0
