"""C16 — teardown is complete: no stale connection state, no waiter left hanging.

Implementation side: REAL Devices + Hosts + Controllers on a LocalLink.  A *case* is
(procedure, cut kind, cut side, k): the procedure (something that awaits the peer) is started,
and after the k-th HCI packet crossing a host/controller boundary (counted at delivery, both
sides, both directions; k = 0: after the first step of the calls just started) the link is cut
at that message boundary (loop.call_soon): `disc` = Connection.disconnect() issued by that side
(if the device still holds the connection), `loss` = the HCI transport of that side is lost
(Host.on_transport_lost(), every later packet of that side dropped).  The loop is then run to
quiescence, then virtual time is advanced timer by timer (no wall-clock waiting) and the loop
run to quiescence again.

Oracle (implementation observables only): every awaited call is done (result | error |
cancelled; STILL PENDING = violation; a call released by its own 30 s timer counts as
released), no registry of a closed stack mentions the connection, host / device / controller
agree on the live set, and after a disconnection no task the stacks spawned during the
procedure is still pending.

Correspondence: the registry contents observed immediately before the stack processes the
Disconnection Complete event (or the transport loss) are abstracted into a state of
Model/Teardown.v; the model's fan-out applied to it must give the registry contents observed
after quiescence, and the model's release class of every waiter (prompt | timer) must be the
observed one.
"""
import asyncio
import json
import logging
import os
import sys


PROP_FILES = ['Props/C16.v']
LEVEL = 'partial'

import warnings
warnings.simplefilter('ignore', RuntimeWarning)    # 'coroutine ... was never awaited' of tasks cancelled at the end of a case

if not os.environ.get('C16_LOG'):      # C16_LOG=1: keep bumble's logging (debugging aid only)
    logging.disable(logging.CRITICAL)

STEP_BUDGET = 20000          # loop iterations per settle
TIMER_HORIZON = 100.0        # virtual seconds advanced after the cut (GATT timeouts are 30 s)
TIMER_BUDGET = 400           # timer firings per case
CASE_WALL_LIMIT = 120        # safety net only: a case normally takes 25 ms


# ============================================================================= engine
class Budget(Exception):
    pass


class Tap:
    """Sits on one direction of one side's HCI boundary; counts at delivery."""

    def __init__(self, world, side, direction, target):
        self.world, self.side, self.direction, self.target = world, side, direction, target

    def on_packet(self, packet):
        w = self.world
        if w.lost[self.side]:
            return
        counted = w.counting
        n = -1
        if counted:
            w.count += 1
            n = w.count
        is_disc = (self.direction == 'c2h' and len(packet) >= 4 and packet[0] == 0x04
                   and packet[1] == 0x05 and packet[3] == 0x00)
        if is_disc and counted:
            w.fanout_pre(self.side, packet[4] | (packet[5] << 8))
        self.target.on_packet(packet)
        if is_disc:
            w.closed[self.side].add(packet[4] | (packet[5] << 8))
        if is_disc and counted:
            w.fanout_post(self.side, packet[4] | (packet[5] << 8))
        if counted and w.cut_at is not None and n == w.cut_at:
            if w.inline:
                w.fire_cut()                      # between the packet and the tasks it woke up
            else:
                w.loop.call_soon(w.fire_cut)      # at the message boundary


class HandOver:
    """The host's sink, at the moment the host hands a packet over (before the asynchronous pipe):
    an ACL packet for a handle whose disconnection the host has already processed is recorded."""

    def __init__(self, world, side, sink):
        self.world, self.side, self.sink = world, side, sink

    def on_packet(self, packet):
        w = self.world
        if len(packet) >= 3 and packet[0] == 0x02 and not w.lost[self.side]:
            acl_handle = (packet[1] | (packet[2] << 8)) & 0x0FFF
            if acl_handle in w.closed[self.side]:
                w.acl_for_closed.append([self.side, acl_handle])
        self.sink.on_packet(packet)


class World:
    def __init__(self, classic=False, aux=False, auto_restart=False, small_buffers=None, plain_aux=False):
        from bumble.controller import Controller
        from bumble.device import Device
        from bumble.hci import Address
        from bumble.host import Host
        from bumble.link import LocalLink
        from bumble.transport.common import AsyncPipeSink

        self.loop = asyncio.get_running_loop()
        self.vt = [self.loop.time()]
        self.loop.time = lambda: self.vt[0]       # virtual clock: timers never wait wall-clock
        n = 3 if aux else 2
        self.n = n
        self.lost = [False] * n
        self.counting = False
        self.count = 0
        self.cut_at = None
        self.cut = None
        self.cut_fired = False
        self.inline = False
        self.pre = [None] * n                     # registry snapshot just before the fan-out
        self.pre_waiters = [None] * n
        self.post = [None] * n                    # ... and right after it, before anything else runs
        self.waiters = []                         # dicts: name, side, kind, task
        self.probes = {}                          # family -> is its release mechanism armed?
        self.callback_exceptions = []             # exceptions that escaped a callback of the loop
        self.loop.set_exception_handler(self._on_loop_exception)
        self.link = LocalLink()
        addrs = ['F0:F0:F0:F0:F0:F0', 'F1:F1:F1:F1:F1:F1', 'F2:F2:F2:F2:F2:F2']
        self.controllers = [Controller(f'C{i}', link=self.link, public_address=addrs[i]) for i in range(n)]
        if small_buffers:
            self.controllers[0].total_num_le_acl_data_packets = small_buffers   # read by LE Read Buffer Size
        self.plain_aux = plain_aux
        self.closed = [set() for _ in range(n)]   # handles whose disconnection the host has processed
        self.acl_for_closed = []                  # ACL packets the host handed over for such a handle
        self.devices = []
        for i in range(n):
            c = self.controllers[i]
            host = Host()
            host.hci_sink = HandOver(self, i, AsyncPipeSink(Tap(self, i, 'h2c', c)))
            c.hci_sink = Tap(self, i, 'c2h', host)
            d = Device(address=Address(addrs[i]), host=host)
            d.classic_enabled = classic
            self.devices.append(d)
        self.classic = classic
        self.aux = aux
        self.auto_restart = auto_restart
        self.conns = [None] * n                   # the connection under test, as seen by sides 0 and 1
        self.handle = [None] * n
        self.aux_conns = [None, None]             # second link of stack 0 (to stack 2): [side 0's, side 2's]

    def _on_loop_exception(self, loop, context):
        """An exception escaped from a loop callback: an HCI packet handler (and every event
        listener below it) or the cut itself.  Recorded with the innermost bumble function."""
        exc = context.get('exception')
        if exc is None or 'handle' not in context:
            return      # (unretrieved task exceptions etc. are judged through the awaited calls)
        where = '?'
        tb = exc.__traceback__
        while tb is not None:
            code = tb.tb_frame.f_code
            if '/bumble/' in code.co_filename:
                where = getattr(code, 'co_qualname', code.co_name)
            tb = tb.tb_next
        self.callback_exceptions.append({'type': type(exc).__name__, 'where': where,
                                         'after_cut': self.cut_fired, 'count': self.count})

    # ---- deterministic loop control
    async def settle(self):
        for _ in range(STEP_BUDGET):
            await asyncio.sleep(0)
            if not self.loop._ready:
                return
        raise Budget('loop does not become idle')

    def next_timer(self, horizon):
        whens = [hd.when() for hd in self.loop._scheduled if not hd.cancelled()]
        if not whens or min(whens) > horizon:
            return False
        self.vt[0] = max(self.vt[0], min(whens))
        return True

    async def wait(self, aw, what='setup step'):
        """await something during set-up, advancing virtual time when only timers remain"""
        t = asyncio.ensure_future(aw)
        limit = self.vt[0] + 15.0
        for _ in range(STEP_BUDGET):
            if t.done():
                return t.result()
            await asyncio.sleep(0)
            if not self.loop._ready and not t.done():
                if not self.next_timer(limit):
                    t.cancel()
                    raise Budget(f'{what} blocked')
        t.cancel()
        raise Budget(f'{what}: step budget')

    async def run_timers(self):
        horizon = self.vt[0] + TIMER_HORIZON
        for _ in range(TIMER_BUDGET):
            if not self.next_timer(horizon):
                return
            await self.settle()
        raise Budget('timer budget')

    # ---- set-up
    async def setup(self):
        from bumble.core import PhysicalTransport
        d0, d1 = self.devices[0], self.devices[1]
        for d in self.devices:
            await self.wait(d.power_on())
        got = {}
        for i in range(self.n):
            self.devices[i].on('connection', lambda c, i=i: got.__setitem__(i, c))
        if self.classic:
            await self.wait(asyncio.gather(
                d0.connect(d1.public_address, transport=PhysicalTransport.BR_EDR),
                d1.accept(d0.public_address)))
        else:
            # (auto-restart worlds advertise rarely: the restarted advertiser's timer would otherwise
            #  fire a hundred thousand times within the virtual horizon)
            await self.wait(d1.start_advertising(advertising_interval_min=5000.0 if self.auto_restart else 1.0,
                                                 auto_restart=self.auto_restart))
            await self.wait(d0.connect(d1.random_address))
        await self.settle()
        if got.get(0) is None or got.get(1) is None:
            raise Budget('connection not established')
        self.conns[0], self.conns[1] = got[0], got[1]
        self.handle[0], self.handle[1] = got[0].handle, got[1].handle
        for c in (got[0], got[1]):
            app_listeners(c)
        if self.aux:
            d2 = self.devices[2]
            await self.wait(d2.start_advertising(advertising_interval_min=1.0))
            self.aux_conns[0] = await self.wait(d0.connect(d2.random_address))
            await self.settle()
            if got.get(2) is None:
                raise Budget('second connection not established')
            self.aux_conns[1] = got[2]
            app_listeners(self.aux_conns[0])
            app_listeners(self.aux_conns[1])
            self.handle[2] = -1          # stack 2 never sees the connection under test

    def spawn(self, name, side, kind, coro):
        t = asyncio.ensure_future(coro)
        self.waiters.append({'name': name, 'side': side, 'kind': kind, 'task': t, 'prompt': None})
        return t

    # ---- the cut
    def fire_cut(self):
        if self.cut_fired or self.cut is None:
            return
        self.cut_fired = True
        kind, side = self.cut
        if kind == 'disc':
            self.spawn('cut.disconnect', side, 'disconnect', self._cut_disconnect(side))
        elif kind == 'loss':
            self.fanout_pre(side, self.handle[side])
            self.lost[side] = True
            try:
                self.devices[side].host.on_transport_lost()
            finally:
                self.fanout_post(side, self.handle[side])

    async def _cut_disconnect(self, side):
        # the caller checks that the connection is still there and disconnects it, in one step
        conn = self.conns[side]
        if self.devices[side].connections.get(conn.handle) is not conn:
            return
        await conn.disconnect()

    def fanout_pre(self, side, handle):
        if handle == self.handle[side] and self.pre[side] is None:
            self.pre[side] = snapshot(self, side)
            self.pre_waiters[side] = pending_kinds(self, side)


APP_EVENTS = ('disconnection', 'connection_encryption_change', 'connection_encryption_key_refresh',
              'connection_att_mtu_update', 'connection_parameters_update', 'connection_phy_update',
              'connection_data_length_change', 'pairing', 'pairing_failure', 'pairing_start')


def app_listeners(connection):
    """what an application or a profile does: listen to the connection's events"""
    for ev in APP_EVENTS:
        connection.on(ev, lambda *args, **kwargs: None)


def _world_fanout_post(self, side, handle):
    if handle == self.handle[side] and self.post[side] is None and self.pre[side] is not None:
        self.post[side] = snapshot(self, side)


World.fanout_post = _world_fanout_post


def outcome(task):
    if not task.done():
        return 'pending'
    if task.cancelled():
        return 'cancelled'
    e = task.exception()
    if e is None:
        return 'result'
    if isinstance(e, asyncio.CancelledError):
        return 'cancelled'
    return 'error'


# ============================================================================= registries
EXTRA_ATTRS = []   # (module, class, attr) found by search(): unclassified containers


def _generic_keys(container):
    out = []
    try:
        keys = list(container.keys()) if hasattr(container, 'keys') else [x[1] if isinstance(x, tuple) else x
                                                                        for x in container]
    except Exception:
        return out
    for k in keys:
        if isinstance(k, bool):
            continue
        if isinstance(k, int):
            out.append([k, 0])
        elif hasattr(k, 'source_cid') and hasattr(k, 'connection'):
            out.append([k.connection.handle, k.source_cid])
        elif hasattr(k, 'handle') and isinstance(getattr(k, 'handle'), int):
            out.append([k.handle, 0])
    return sorted(out)


def _bearer_key(b):
    if hasattr(b, 'source_cid'):
        return [b.connection.handle, b.source_cid]
    return [b.handle, 0]


def snapshot(w, side):
    """Contents of every connection-keyed registry of one stack, canonicalised:
    {registry id: sorted list of [handle, sub] keys} (sub = 0 for the connection itself,
    the source CID for an EATT bearer)."""
    d = w.devices[side]
    h = d.host
    c = w.controllers[side]
    gs = d.gatt_server
    cm = d.l2cap_channel_manager
    s = {}

    def hk(keys):
        return sorted([int(k), 0] for k in keys)

    s['controller.Controller.le_connections'] = sorted([x.handle, 0] for x in c.le_connections.values())
    s['controller.Controller.classic_connections'] = sorted(
        [x.handle, 0] for x in c.classic_connections.values() if x.handle is not None)
    s['host.Host.connections'] = hk(h.connections)
    s['host.Host.cis_links'] = hk(h.cis_links)
    s['host.Host.sco_links'] = hk(h.sco_links)
    s['host.Host.link_ts_flags'] = hk(h.link_ts_flags)
    for name, q in (('le', h.le_acl_packet_queue), ('acl', h.acl_packet_queue)):
        if q is not None:
            s[f'host.DataPacketQueue._connection_state:{name}'] = hk(q._connection_state)
            s[f'host.DataPacketQueue._drained_per_connection:{name}'] = hk(q._drained_per_connection)
            s[f'host.DataPacketQueue._packets:{name}'] = hk(set(x[1] for x in q._packets))
    s['device.Device.connections'] = hk(d.connections)
    s['device.Device.sco_links'] = hk(d.sco_links)
    s['device.Device.cis_links'] = hk(d.cis_links)
    s['device.Device.connecting_extended_advertising_sets'] = hk(d.connecting_extended_advertising_sets)
    s['gatt_server.Server.subscribers'] = sorted(_bearer_key(b) for b in gs.subscribers)
    s['gatt_server.Server.indication_semaphores'] = sorted(_bearer_key(b) for b in gs.indication_semaphores)
    s['gatt_server.Server.pending_confirmations'] = sorted(_bearer_key(b) for b in gs.pending_confirmations)
    s['smp.Manager.sessions'] = hk(d.smp_manager.sessions)
    s['l2cap.ChannelManager.identifiers'] = hk(cm.identifiers)
    s['l2cap.ChannelManager.channels'] = hk(cm.channels)
    s['l2cap.ChannelManager.le_coc_channels'] = hk(cm.le_coc_channels)
    s['l2cap.ChannelManager.pending_credit_based_connections'] = hk(cm.pending_credit_based_connections)
    s['l2cap.ChannelManager.le_coc_requests'] = hk(k for k, v in cm.le_coc_requests.items() if isinstance(k, int))
    if EXTRA_ATTRS:
        objs = {('controller', 'Controller'): [c], ('host', 'Host'): [h],
                ('host', 'DataPacketQueue'): [q for q in (h.le_acl_packet_queue, h.acl_packet_queue) if q],
                ('device', 'Device'): [d], ('gatt_server', 'Server'): [gs],
                ('smp', 'Manager'): [d.smp_manager], ('l2cap', 'ChannelManager'): [cm]}
        for module, cls, attr in EXTRA_ATTRS:
            for n, o in enumerate(objs.get((module, cls), [])):
                if hasattr(o, attr):
                    s[f'{module}.{cls}.{attr}' + (f':{n}' if n else '')] = _generic_keys(getattr(o, attr))
    return s


def _blocked_on(task):
    """the future a pending task is really waiting for (None: it is about to run)"""
    fut = getattr(task, '_fut_waiter', None)
    seen = 0
    while fut is not None and isinstance(fut, asyncio.Task) and seen < 20:
        fut = getattr(fut, '_fut_waiter', None)
        seen += 1
    return fut


def pending_kinds(w, side):
    """[name, kind, state] of the awaited calls of one side at the moment of the fan-out.
    state: result|error|cancelled (already done), resuming (the future it awaits is already
    resolved, the task just has not run yet: nothing to release), pending.
    Of several GATT requests (indications) on one bearer only the one the client (server)
    has registered is released by the teardown; the others are still queued on the
    semaphore and fall to their timer."""
    out = []
    used = set()
    for x in w.waiters:
        if x['side'] != side:
            continue
        st = outcome(x['task'])
        kind = x['kind']
        if st == 'pending':
            fut = _blocked_on(x['task'])
            if fut is None or fut.done():
                st = 'resuming'
        family = {'gatt_request': 'gatt', 'gatt_request_queued': 'gatt', 'eatt_request': 'eatt',
                  'indicate': 'ind', 'indicate_queued': 'ind'}.get(kind)
        if family and st == 'pending':
            armed = w.probes.get(family)
            if armed is not None and armed() and family not in used:
                used.add(family)
                kind = {'gatt': 'gatt_request', 'eatt': 'eatt_request', 'ind': 'indicate'}[family]
            else:
                kind = {'gatt': 'gatt_request_queued', 'eatt': 'gatt_request_queued', 'ind': 'indicate_queued'}[family]
        out.append([x['name'], kind, st])
    return out


def _fut_armed(get):
    def probe():
        try:
            f = get()
        except Exception:
            return False
        return f is not None and not f.done()
    return probe


# ============================================================================= second link
PSM_AUX = 0x90


async def prep_aux(w):
    """Gives the second link of stack 0 (to stack 2) state in every layer: a pairing
    session, a subscription of stack 2 to a characteristic of stack 0, an open LE
    credit-based channel, a discovered GATT database of stack 2."""
    from bumble import l2cap
    from bumble.gatt import Characteristic, Service
    from bumble.pairing import PairingConfig, PairingDelegate
    P = Characteristic.Properties
    a0, a2 = w.aux_conns
    d0, d2 = w.devices[0], w.devices[2]
    ch0 = Characteristic('A0A0', P.READ | P.INDICATE | P.NOTIFY, Characteristic.Permissions.READABLE, b'zero')
    d0.add_service(Service('A000', [ch0]))
    ch2 = Characteristic('A2A2', P.READ | P.WRITE, Characteristic.Permissions.READABLE | Characteristic.Permissions.WRITEABLE,
                         b'two')
    svc2 = Service('A200', [ch2])
    d2.add_service(svc2)
    for d in (d0, d2):
        d.pairing_config_factory = lambda connection: PairingConfig(
            sc=True, mitm=False, bonding=True, delegate=PairingDelegate())
    await w.wait(a0.pair(), 'aux pair')
    # stack 2 subscribes to stack 0's characteristic
    c2 = a2.gatt_client
    await w.wait(c2.discover_services(), 'aux discover')
    sp = c2.get_services_by_uuid(Service('A000', []).uuid)[0]
    await w.wait(sp.discover_characteristics(), 'aux discover characteristics')
    cp = sp.get_characteristics_by_uuid(ch0.uuid)[0]
    await w.wait(cp.discover_descriptors(), 'aux discover descriptors')
    await w.wait(cp.subscribe(lambda v: None, prefer_notify=False), 'aux subscribe')
    # stack 0 discovers stack 2's database
    c0 = a0.gatt_client
    await w.wait(c0.discover_services(), 'aux discover 2')
    sp2 = c0.get_services_by_uuid(svc2.uuid)[0]
    await w.wait(sp2.discover_characteristics(), 'aux discover characteristics 2')
    w.aux_cp = sp2.get_characteristics_by_uuid(ch2.uuid)[0]
    # an open channel
    d2.create_l2cap_server(spec=l2cap.LeCreditBasedChannelSpec(psm=PSM_AUX),
                           handler=lambda channel: setattr(channel, 'sink', lambda data: None))
    w.aux_chan = await w.wait(a0.create_l2cap_channel(spec=l2cap.LeCreditBasedChannelSpec(PSM_AUX)), 'aux coc')
    await w.settle()


async def aux_still_works(w):
    """the other link carries a GATT read and 500 bytes on its channel"""
    value = await w.aux_cp.read_value()
    w.aux_chan.write(bytes(500))
    await w.aux_chan.drain()
    return value


# ============================================================================= procedures
# A procedure = (name, classic?, prepare(w) coroutine run before counting starts,
# start(w) which spawns the awaited calls).  Side 0 is the central / initiator.
PSM_LE = 0x80
PSM_CLASSIC = 0x1001


def _gatt_db(w):
    from bumble.gatt import Characteristic, Service
    P = Characteristic.Properties
    ch = Characteristic('1234', P.READ | P.WRITE | P.WRITE_WITHOUT_RESPONSE | P.INDICATE | P.NOTIFY,
                        Characteristic.Permissions.READABLE | Characteristic.Permissions.WRITEABLE, b'9999')
    svc = Service('ABCD', [ch])
    w.devices[1].add_service(svc)
    w.ch, w.svc = ch, svc


async def _discover(w, client):
    await w.wait(client.discover_services(), 'discover services')
    sp = client.get_services_by_uuid(w.svc.uuid)[0]
    await w.wait(sp.discover_characteristics(), 'discover characteristics')
    cp = sp.get_characteristics_by_uuid(w.ch.uuid)[0]
    await w.wait(cp.discover_descriptors(), 'discover descriptors')
    return cp


def _probes(w):
    w.probes['gatt'] = _fut_armed(lambda: w.conns[0].gatt_client.pending_response)
    w.probes['eatt'] = _fut_armed(lambda: w.eclient.pending_response)
    gs = w.devices[1].gatt_server
    w.probes['ind'] = _fut_armed(lambda: next((f for f in gs.pending_confirmations.values() if f is not None), None))


async def prep_gatt(w):
    _gatt_db(w)
    _probes(w)
    w.client = w.conns[0].gatt_client
    w.cp = await _discover(w, w.client)


async def prep_gatt_subscribed(w):
    await prep_gatt(w)
    await w.wait(w.cp.subscribe(lambda v: None, prefer_notify=False), 'subscribe')


async def prep_gatt_db_only(w):
    _gatt_db(w)
    _probes(w)
    w.client = w.conns[0].gatt_client


async def prep_eatt(w):
    from bumble import gatt_client
    _gatt_db(w)
    _probes(w)
    w.devices[1].gatt_server.register_eatt()
    w.eclient = await w.wait(gatt_client.Client.connect_eatt(w.conns[0]), 'connect eatt')
    w.ecp = await _discover(w, w.eclient)


async def prep_eatt_subscribed(w):
    await prep_eatt(w)
    await w.wait(w.ecp.subscribe(lambda v: None, prefer_notify=False), 'eatt subscribe')


async def prep_eatt_server(w):
    _gatt_db(w)
    w.devices[1].gatt_server.register_eatt()


async def prep_coc_server(w):
    from bumble import l2cap
    w.incoming = []

    def on_coc(channel):
        w.incoming.append(channel)
        channel.sink = lambda data: None
    w.devices[1].create_l2cap_server(spec=l2cap.LeCreditBasedChannelSpec(psm=PSM_LE), handler=on_coc)


async def prep_coc_open(w):
    from bumble import l2cap
    await prep_coc_server(w)
    w.chan = await w.wait(w.conns[0].create_l2cap_channel(spec=l2cap.LeCreditBasedChannelSpec(PSM_LE)), 'coc')
    await w.settle()


async def prep_classic_server(w):
    from bumble import l2cap
    w.incoming = []

    def on_chan(channel):
        w.incoming.append(channel)
        channel.sink = lambda data: None
    w.devices[1].create_l2cap_server(spec=l2cap.ClassicChannelSpec(psm=PSM_CLASSIC), handler=on_chan)


async def prep_classic_open(w):
    from bumble import l2cap
    await prep_classic_server(w)
    w.chan = await w.wait(w.conns[0].create_l2cap_channel(spec=l2cap.ClassicChannelSpec(PSM_CLASSIC)), 'l2cap')
    await w.settle()


async def prep_sdp(w):
    from bumble import sdp
    w.sdp = sdp.Client(w.conns[0])
    await w.wait(w.sdp.connect(), 'sdp connect')
    await w.settle()


async def prep_rfcomm_server(w):
    from bumble import rfcomm
    w.rf_server = rfcomm.Server(w.devices[1])
    w.rf_dlcs = []
    w.rf_channel = w.rf_server.listen(w.rf_dlcs.append)


async def prep_rfcomm_mux(w):
    from bumble import rfcomm
    await prep_rfcomm_server(w)
    w.rf_client = rfcomm.Client(w.conns[0])
    w.mux = await w.wait(w.rf_client.start(), 'rfcomm start')
    await w.settle()


async def prep_none(w):
    pass


async def _prep_starved(w):
    """Stack 0's controller has 2 LE ACL buffers.  Peer A (the second link, to stack 2) is slow:
    the Number Of Completed Packets events for its handle are withheld, and two notifications to A
    hold both buffers - so everything stack 0 sends on the link under test (to stack 1, "B") is
    only queued in the host.  After the teardown of B, A's completions are released and A must
    be able to send and drain."""
    from bumble import hci
    from bumble.gatt import Characteristic, Service
    P = Characteristic.Properties
    w.sch = Characteristic('5A5A', P.READ | P.NOTIFY, Characteristic.Permissions.READABLE, bytes(4))
    w.devices[0].add_service(Service('5A00', [w.sch]))
    a0 = w.aux_conns[0]
    handle_a = a0.handle
    c0 = w.controllers[0]
    state = {'holding': True, 'withheld': []}
    controller_send = c0.send_hci_packet

    def send_hci_packet(packet):
        if (state['holding'] and isinstance(packet, hci.HCI_Number_Of_Completed_Packets_Event)
                and list(packet.connection_handles) == [handle_a]):
            state['withheld'].append(packet)
            return
        controller_send(packet)
    c0.send_hci_packet = send_hci_packet
    server = w.devices[0].gatt_server
    for value in (b'a0', b'a1'):
        await w.wait(server.notify_subscriber(a0, w.sch, value, force=True), 'notify A')
    await w.settle()
    queue = w.devices[0].host.le_acl_packet_queue
    if queue.max_in_flight != 2 or queue.pending != 2 or len(state['withheld']) != 2:
        raise Budget('the two buffers of stack 0 are not held by the slow peer')

    async def after_teardown(w):
        state['holding'] = False
        for packet in state['withheld']:
            controller_send(packet)
        await server.notify_subscriber(a0, w.sch, b'a2', force=True)
        # ... which must reach the controller and be completed
        while any(h == handle_a for _, h in queue._packets):
            flow = asyncio.get_running_loop().create_future()
            queue.once('flow', lambda: flow.done() or flow.set_result(None))
            await flow
        await queue.drain(handle_a)
    w.after_teardown = after_teardown


async def prep_starved_notify(w):
    await _prep_starved(w)


async def prep_starved_coc(w):
    # B has an open LE credit-based channel before the buffers are taken
    await prep_coc_open(w)
    await _prep_starved(w)


async def _starved_notify(w):
    server = w.devices[0].gatt_server
    for value in (b'b0', b'b1', b'b2'):
        await server.notify_subscriber(w.conns[0], w.sch, value, force=True)


async def _starved_coc_write(w):
    w.chan.write(bytes(100))


def _sbc_capabilities():
    from bumble import a2dp, avdtp
    I = a2dp.SbcMediaCodecInformation
    return avdtp.MediaCodecCapabilities(
        media_type=avdtp.MediaType.AUDIO, media_codec_type=a2dp.CodecType.SBC,
        media_codec_information=I(
            sampling_frequency=I.SamplingFrequency.SF_44100, channel_mode=I.ChannelMode.JOINT_STEREO,
            block_length=I.BlockLength.BL_16, subbands=I.Subbands.S_8,
            allocation_method=I.AllocationMethod.LOUDNESS, minimum_bitpool_value=2, maximum_bitpool_value=53))


async def prep_avdtp_listener(w):
    from bumble import avdtp
    w.avdtp_listener = avdtp.Listener.for_device(w.devices[1])
    w.avdtp_listener.on('connection', lambda server: server.add_sink(_sbc_capabilities()))


async def prep_avdtp(w):
    from bumble import avdtp
    await prep_avdtp_listener(w)
    w.avdtp = await w.wait(avdtp.Protocol.connect(w.conns[0]), 'avdtp connect')
    await w.settle()


async def _avdtp_connect(w):
    from bumble import avdtp
    w.avdtp = await avdtp.Protocol.connect(w.conns[0])


def _pairing(w):
    from bumble.pairing import PairingConfig, PairingDelegate
    for d in w.devices:
        d.pairing_config_factory = lambda connection: PairingConfig(
            sc=True, mitm=False, bonding=True, delegate=PairingDelegate())


async def prep_pair(w):
    _pairing(w)


async def prep_pair_rejected_once(w, silent_after=False):
    # the first pairing attempt is rejected by the responder's user; the next one is accepted
    # (or, silent_after, never answered)
    from bumble.pairing import PairingConfig, PairingDelegate
    state = {'n': 0}

    class Moody(PairingDelegate):
        async def accept(self):
            state['n'] += 1
            return state['n'] > 1

        async def confirm(self, auto=False):
            if silent_after:
                await asyncio.get_running_loop().create_future()
            return True

    w.devices[0].pairing_config_factory = lambda connection: PairingConfig(
        sc=True, mitm=False, bonding=True, delegate=PairingDelegate())
    w.devices[1].pairing_config_factory = lambda connection: PairingConfig(
        sc=True, mitm=False, bonding=True, delegate=Moody())
    try:
        await w.wait(w.conns[0].pair(), 'first pairing attempt')
        raise Budget('the first pairing attempt was expected to fail')
    except Budget:
        raise
    except Exception:
        pass
    await w.settle()


async def prep_pair_rejected_once_silent(w):
    await prep_pair_rejected_once(w, silent_after=True)


async def prep_gatt_failed_once(w):
    # a request that the server answers with an Error Response, then the procedure proper
    await prep_gatt(w)
    try:
        await w.wait(w.client.read_value(0x7FFF), 'read of an invalid handle')
    except Budget:
        raise
    except Exception:
        pass
    await w.settle()


async def prep_coc_refused_once(w):
    # a connection request to a PSM nobody listens on is refused; then the server appears
    from bumble import l2cap
    try:
        await w.wait(w.conns[0].create_l2cap_channel(spec=l2cap.LeCreditBasedChannelSpec(PSM_LE)), 'refused coc')
        raise Budget('the first channel request was expected to be refused')
    except Budget:
        raise
    except Exception:
        pass
    await prep_coc_server(w)
    await w.settle()


async def prep_classic_refused_once(w):
    from bumble import l2cap
    try:
        await w.wait(w.conns[0].create_l2cap_channel(spec=l2cap.ClassicChannelSpec(PSM_CLASSIC)), 'refused channel')
        raise Budget('the first channel request was expected to be refused')
    except Budget:
        raise
    except Exception:
        pass
    await prep_classic_server(w)
    await w.settle()


async def prep_paired(w):
    # the link under test is already paired (its SMP session stays until the disconnection)
    await prep_gatt(w)
    _pairing(w)
    await w.wait(w.conns[0].pair(), 'pair')


async def prep_pair_prompt(w):
    # the responder's user never answers the confirmation prompt
    from bumble.pairing import PairingConfig, PairingDelegate

    class Silent(PairingDelegate):
        async def confirm(self, auto=False):
            await asyncio.get_running_loop().create_future()
            return True

    w.devices[0].pairing_config_factory = lambda connection: PairingConfig(
        sc=True, mitm=False, bonding=True, delegate=PairingDelegate())
    w.devices[1].pairing_config_factory = lambda connection: PairingConfig(
        sc=True, mitm=False, bonding=True, delegate=Silent())


async def _flood(w):
    # more ATT write commands than the controller has buffers: packets wait in the host queue
    for i in range(80):
        await w.cp.write_value(bytes([i]) * 20, with_response=False)
    await w.cp.write_value(b'end', with_response=True)


def _uuid(x):
    from bumble.core import UUID
    return UUID(x)


PROCEDURES = {
    # name: (classic, prepare, start)
    'gatt_read': (False, prep_gatt, lambda w: [w.spawn('read', 0, 'gatt_request', w.cp.read_value())]),
    'gatt_write': (False, prep_gatt, lambda w: [
        w.spawn('write', 0, 'gatt_request', w.cp.write_value(b'abc', with_response=True))]),
    'gatt_read_x2': (False, prep_gatt, lambda w: [
        w.spawn('read#1', 0, 'gatt_request', w.cp.read_value()),
        w.spawn('read#2', 0, 'gatt_request_queued', w.cp.read_value())]),
    'gatt_discover': (False, prep_gatt_db_only, lambda w: [
        w.spawn('discover', 0, 'gatt_request', _discover_all(w))]),
    'gatt_mtu': (False, prep_gatt_db_only, lambda w: [
        w.spawn('mtu', 0, 'gatt_request', w.client.request_mtu(100))]),
    'gatt_subscribe': (False, prep_gatt, lambda w: [
        w.spawn('subscribe', 0, 'gatt_request', w.cp.subscribe(lambda v: None, prefer_notify=False))]),
    'gatt_indicate': (False, prep_gatt_subscribed, lambda w: [
        w.spawn('indicate', 1, 'indicate', w.devices[1].gatt_server.indicate_subscriber(w.conns[1], w.ch, b'abc'))]),
    'gatt_indicate_x2': (False, prep_gatt_subscribed, lambda w: [
        w.spawn('indicate#1', 1, 'indicate', w.devices[1].gatt_server.indicate_subscriber(w.conns[1], w.ch, b'abc')),
        w.spawn('indicate#2', 1, 'indicate_queued',
                w.devices[1].gatt_server.indicate_subscriber(w.conns[1], w.ch, b'def'))]),
    'gatt_indicate_all': (False, prep_gatt_subscribed, lambda w: [
        w.spawn('indicate_all', 1, 'indicate_all', w.devices[1].gatt_server.indicate_subscribers(w.ch, b'abc'))]),
    'gatt_notify': (False, prep_gatt_subscribed, lambda w: [
        w.spawn('notify', 1, 'local', w.devices[1].gatt_server.notify_subscriber(w.conns[1], w.ch, b'abc'))]),
    'gatt_flood': (False, prep_gatt, lambda w: [w.spawn('flood', 0, 'gatt_request', _flood(w))]),
    'eatt_connect': (False, prep_eatt_server, lambda w: [
        w.spawn('connect_eatt', 0, 'l2cap_connect', _connect_eatt(w))]),
    'eatt_read': (False, prep_eatt, lambda w: [w.spawn('eatt read', 0, 'eatt_request', w.ecp.read_value())]),
    'eatt_subscribe': (False, prep_eatt, lambda w: [
        w.spawn('eatt subscribe', 0, 'eatt_request', w.ecp.subscribe(lambda v: None, prefer_notify=False))]),
    'eatt_indicate': (False, prep_eatt_subscribed, lambda w: [
        w.spawn('eatt indicate', 1, 'indicate', w.devices[1].gatt_server.indicate_subscribers(w.ch, b'abc'))]),
    'paired_read': (False, prep_paired, lambda w: [w.spawn('read', 0, 'gatt_request', w.cp.read_value())]),
    'smp_pair': (False, prep_pair, lambda w: [w.spawn('pair', 0, 'pair', w.conns[0].pair())]),
    # history-dependent: a FAILED attempt of the same kind on the same connection, then the retry
    'smp_pair_retry': (False, prep_pair_rejected_once, lambda w: [w.spawn('pair', 0, 'pair', w.conns[0].pair())]),
    'smp_pair_retry_prompt': (False, prep_pair_rejected_once_silent, lambda w: [
        w.spawn('pair', 0, 'pair', w.conns[0].pair())]),
    'gatt_read_retry': (False, prep_gatt_failed_once, lambda w: [
        w.spawn('read', 0, 'gatt_request', w.cp.read_value())]),
    'coc_connect_retry': (False, prep_coc_refused_once, lambda w: [
        w.spawn('coc connect', 0, 'l2cap_connect', _coc_connect(w))]),
    'cl2cap_connect_retry': (True, prep_classic_refused_once, lambda w: [
        w.spawn('l2cap connect', 0, 'l2cap_connect', _classic_connect(w))]),
    'smp_pair_prompt': (False, prep_pair_prompt, lambda w: [w.spawn('pair', 0, 'pair', w.conns[0].pair())]),
    'coc_connect': (False, prep_coc_server, lambda w: [
        w.spawn('coc connect', 0, 'l2cap_connect', _coc_connect(w))]),
    'coc_disconnect': (False, prep_coc_open, lambda w: [
        w.spawn('coc disconnect', 0, 'l2cap_disconnect', w.chan.disconnect())]),
    'coc_drain': (False, prep_coc_open, lambda w: [w.spawn('coc drain', 0, 'l2cap_drain', _coc_write_drain(w))]),
    'hci_rssi': (False, prep_none, lambda w: [w.spawn('rssi', 0, 'hci_command', w.conns[0].get_rssi())]),
    'hci_features': (False, prep_none, lambda w: [
        w.spawn('features', 0, 'hci_event', w.conns[0].get_remote_le_features())]),
    # the link under test can only QUEUE its outbound data in the host (see _prep_starved)
    'starved_notify': (False, prep_starved_notify, lambda w: [
        w.spawn('notify B', 0, 'local', _starved_notify(w))]),
    'starved_coc': (False, prep_starved_coc, lambda w: [
        w.spawn('write B', 0, 'local', _starved_coc_write(w))]),
    'starved_disconnect': (False, prep_starved_notify, lambda w: [
        w.spawn('notify B', 0, 'local', _starved_notify(w)),
        w.spawn('disconnect', 0, 'disconnect', w.conns[0].disconnect())]),
    'adv_restart': (False, prep_none, lambda w: [
        w.spawn('disconnect', 0, 'disconnect', w.conns[0].disconnect())]),
    'adv_restart_peer': (False, prep_none, lambda w: [
        w.spawn('disconnect', 1, 'disconnect', w.conns[1].disconnect())]),
    'disconnect': (False, prep_none, lambda w: [
        w.spawn('disconnect', 0, 'disconnect', w.conns[0].disconnect())]),
    'cl2cap_connect': (True, prep_classic_server, lambda w: [
        w.spawn('l2cap connect', 0, 'l2cap_connect', _classic_connect(w))]),
    'cl2cap_disconnect': (True, prep_classic_open, lambda w: [
        w.spawn('l2cap disconnect', 0, 'l2cap_disconnect', w.chan.disconnect())]),
    'sdp_connect': (True, prep_none, lambda w: [w.spawn('sdp connect', 0, 'l2cap_connect', _sdp_connect(w))]),
    'sdp_search': (True, prep_sdp, lambda w: [
        w.spawn('sdp search', 0, 'sdp_request', w.sdp.search_services([_uuid('1101')]))]),
    'rfcomm_start': (True, prep_rfcomm_server, lambda w: [
        w.spawn('rfcomm start', 0, 'rfcomm_connect', _rfcomm_start(w))]),
    'rfcomm_open': (True, prep_rfcomm_mux, lambda w: [
        w.spawn('rfcomm open', 0, 'rfcomm_open', w.mux.open_dlc(w.rf_channel))]),
    'avdtp_connect': (True, prep_avdtp_listener, lambda w: [
        w.spawn('avdtp connect', 0, 'l2cap_connect', _avdtp_connect(w))]),
    'avdtp_discover': (True, prep_avdtp, lambda w: [
        w.spawn('avdtp discover', 0, 'avdtp_request', w.avdtp.discover_remote_endpoints())]),
    'classic_name': (True, prep_none, lambda w: [
        w.spawn('remote name', 0, 'hci_event', w.conns[0].request_remote_name())]),
    'classic_disconnect': (True, prep_none, lambda w: [
        w.spawn('disconnect', 0, 'disconnect', w.conns[0].disconnect())]),
}


async def _discover_all(w):
    await w.client.discover_services()
    for s in w.client.services:
        await s.discover_characteristics()
    for s in w.client.services:
        for c in s.characteristics:
            await c.discover_descriptors()


async def _connect_eatt(w):
    from bumble import gatt_client
    w.eclient = await gatt_client.Client.connect_eatt(w.conns[0])


async def _coc_connect(w):
    from bumble import l2cap
    w.chan = await w.conns[0].create_l2cap_channel(spec=l2cap.LeCreditBasedChannelSpec(PSM_LE))


async def _coc_write_drain(w):
    w.chan.write(bytes(3000))
    await w.chan.drain()


async def _classic_connect(w):
    from bumble import l2cap
    w.chan = await w.conns[0].create_l2cap_channel(spec=l2cap.ClassicChannelSpec(PSM_CLASSIC))


async def _sdp_connect(w):
    from bumble import sdp
    w.sdp = sdp.Client(w.conns[0])
    await w.sdp.connect()


async def _rfcomm_start(w):
    from bumble import rfcomm
    w.rf_client = rfcomm.Client(w.conns[0])
    w.mux = await w.rf_client.start()


CUTS = [('disc', 0), ('disc', 1), ('loss', 0), ('loss', 1)]
# the peripheral advertises with auto_restart: after the disconnection its stack restarts the advertising by
# itself, in a task that is under cancel_on_event(FLUSH) while its HCI commands are in flight
_STARVED = {'aux': True, 'small_buffers': 2, 'plain_aux': True}
PROC_OPTIONS = {'adv_restart': {'auto_restart': True}, 'adv_restart_peer': {'auto_restart': True},
                'starved_notify': _STARVED, 'starved_coc': _STARVED, 'starved_disconnect': _STARVED}
# uncut run does not end with a result: Read RSSI is rejected by the virtual controller; the user never answers
OPEN_ENDED = ('hci_rssi', 'smp_pair_prompt', 'smp_pair_retry_prompt')
# not run in the two-link variant (long; the second link adds nothing new to them)
NO_AUX = ('gatt_flood', 'coc_drain', 'gatt_discover', 'starved_notify', 'starved_coc', 'starved_disconnect')


# ============================================================================= one case
async def _gate_probe(host):
    from bumble import hci
    return await host.send_command(hci.HCI_Read_BD_ADDR_Command())


def _only(snap, h):
    return {reg: [key for key in keys if key[0] == h] for reg, keys in snap.items()}


async def _run_case(proc, cut, k, inline=False):
    aux = proc.endswith('+aux')          # "<procedure>+aux": stack 0 also has a second, busy link to a third stack
    base_proc = proc[:-4] if aux else proc
    classic, prepare, start = PROCEDURES[base_proc]
    options = dict(PROC_OPTIONS.get(base_proc, {}))
    options['aux'] = aux or options.get('aux', False)
    w = World(classic=classic, **options)
    sides = range(w.n)
    res = {'proc': proc, 'cut': list(cut) if cut else None, 'k': k, 'inline': inline}
    try:
        await w.setup()
        await prepare(w)
        if aux:
            # after the procedure's own preparation: the second link's entries are the newer
            # ones in every table (the entries a procedure creates at its start are newer still)
            await prep_aux(w)
        await w.settle()
    except Budget as e:
        res['setup_error'] = str(e)
        return res
    res['handle'] = list(w.handle)
    res['before'] = [snapshot(w, i) for i in sides]
    if w.aux:
        res['aux_handle'] = [w.aux_conns[0].handle, w.aux_conns[1].handle]
    w.cut = tuple(cut) if cut else None
    w.cut_at = k if cut else None
    w.inline = inline
    w.counting = True
    baseline = set(asyncio.all_tasks())
    try:
        start(w)
        if cut and k == 0:
            w.loop.call_soon(w.fire_cut)      # after the first step of the calls just started
        await w.settle()
        for x in w.waiters:
            x['prompt'] = outcome(x['task'])
        res['quiet1'] = [snapshot(w, i) for i in sides]
        await w.run_timers()
    except Budget as e:
        res['budget'] = str(e)
    res['packets'] = w.count
    res['cut_fired'] = w.cut_fired
    res['callback_exceptions'] = list(w.callback_exceptions)
    res['acl_for_closed'] = list(w.acl_for_closed)
    res['pre'] = w.pre
    res['pre_waiters'] = w.pre_waiters
    res['post'] = w.post
    res['final'] = [snapshot(w, i) for i in sides]
    res['waiters'] = [{'name': x['name'], 'side': x['side'], 'kind': x['kind'],
                       'prompt': x['prompt'] or outcome(x['task']), 'final': outcome(x['task'])}
                      for x in w.waiters]
    # tasks the stack spawned itself and that are still pending now that everything is quiet
    mine = {x['task'] for x in w.waiters}
    res['internal_tasks_left'] = sorted(
        getattr(t.get_coro(), '__qualname__', repr(t.get_coro()))
        for t in asyncio.all_tasks()
        if t is not asyncio.current_task() and not t.done() and t not in mine and t not in baseline)
    if aux and 'budget' not in res and not (cut and cut[0] == 'loss' and cut[1] == 0):
        # the second link must be unaffected: same state, and it still carries traffic
        t = asyncio.ensure_future(aux_still_works(w))
        try:
            await w.settle()
            if not t.done():
                await w.run_timers()
        except Budget as e:
            res['budget'] = str(e)
        res['aux_works'] = outcome(t)
        res['aux_final'] = [snapshot(w, i) for i in sides]
        if not t.done():
            t.cancel()
    after = getattr(w, 'after_teardown', None)
    if after is not None and 'budget' not in res and not (cut and cut[0] == 'loss' and cut[1] == 0):
        # a procedure's own epilogue (e.g. the slow peer finally reports its packets completed)
        t = asyncio.ensure_future(after(w))
        try:
            await w.settle()
            if not t.done():
                await w.run_timers()
        except Budget as e:
            res['budget'] = str(e)
        res['epilogue'] = outcome(t)
        res['final'] = [snapshot(w, i) for i in sides]
        res['acl_for_closed'] = list(w.acl_for_closed)
        if not t.done():
            t.cancel()
    res['queues'] = []
    for i in sides:
        for name, q in (('le', w.devices[i].host.le_acl_packet_queue), ('acl', w.devices[i].host.acl_packet_queue)):
            if q is not None:
                res['queues'].append({'side': i, 'queue': name, 'pending': q.pending, 'in_flight': q._in_flight,
                                      'waiting': len(q._packets),
                                      'per_connection': sum(st.in_flight for st in q._connection_state.values())})
    # the HCI command gate of every stack: free at quiescence, and still usable
    res['gate'] = []
    for i in sides:
        h = w.devices[i].host
        res['gate'].append({'locked': h.command_semaphore.locked(),
                            'pending_command': h.pending_command is not None,
                            'pending_response': h.pending_response is not None})
    if 'budget' not in res:
        probes = []
        for i in sides:
            if w.lost[i]:
                probes.append(('power_off', asyncio.ensure_future(w.devices[i].power_off())))
            else:
                probes.append(('command', asyncio.ensure_future(_gate_probe(w.devices[i].host))))
        try:
            await w.settle()
            if not all(t.done() for _, t in probes):
                await w.run_timers()
        except Budget as e:
            res['budget'] = str(e)
        res['gate_probe'] = [[what, outcome(t)] for what, t in probes]
        for _, t in probes:
            if not t.done():
                t.cancel()
    for x in w.waiters:
        if not x['task'].done():
            x['task'].cancel()
    # do not leave anything behind in the loop
    for t in asyncio.all_tasks():
        if t is not asyncio.current_task():
            t.cancel()
    return res


def run_case(proc, cut, k, inline=False):
    from bumble.utils import AsyncRunner
    AsyncRunner.running_tasks.clear()
    AsyncRunner.default_queue.queue = None
    AsyncRunner.default_queue.task = None
    import signal

    def _alarm(signum, frame):
        raise Budget(f'case did not finish within {CASE_WALL_LIMIT} s of wall-clock time')
    old_handler = signal.signal(signal.SIGALRM, _alarm)
    signal.setitimer(signal.ITIMER_REAL, CASE_WALL_LIMIT)
    try:
        return asyncio.run(_run_case(proc, cut, k, inline))
    except Budget as e:
        return {'proc': proc, 'cut': list(cut) if cut else None, 'k': k, 'inline': inline, 'crash': str(e), 'tb': ''}
    except Exception as e:  # a crash of the harness itself
        import traceback
        return {'proc': proc, 'cut': list(cut) if cut else None, 'k': k, 'inline': inline,
                'crash': ''.join(traceback.format_exception_only(type(e), e)).strip(),
                'tb': traceback.format_exc()[-1500:]}
    finally:
        signal.setitimer(signal.ITIMER_REAL, 0)
        signal.signal(signal.SIGALRM, old_handler)


# ============================================================================= oracle
def closed_sides(cut):
    """which stacks must have forgotten the connection once everything is quiet"""
    if cut is None:
        return []
    kind, side = cut
    return [0, 1] if kind == 'disc' else [side]


def closed_handles(res, side):
    """the handles stack `side` must have forgotten"""
    cut = res['cut']
    out = []
    if cut is None or not res.get('cut_fired'):
        return out
    if side in closed_sides(cut) and side < 2:
        out.append(res['handle'][side])
    if 'aux_handle' in res and cut[0] == 'loss' and cut[1] == 0 and side == 0:
        out.append(res['aux_handle'][0])       # its transport is gone: both links
    return out


def oracle(res):
    """Property C16 over implementation observables.  Returns a list of (signature, text)."""
    bad = []
    proc, cut, k = res['proc'], res['cut'], res['k']
    tag = f"{proc}/{cut[0]}{cut[1]}@{k}" if cut else f"{proc}/uncut"
    nsides = len(res['final'])
    if 'budget' in res:
        bad.append((f'{tag}:budget', f'{tag} k={k}: {res["budget"]} (the stack keeps running after the cut)'))
    for x in res['waiters']:
        if x['final'] == 'pending' and cut is not None:
            # a call on a stack whose connection is still alive may legitimately keep waiting
            if x['side'] in closed_sides(cut):
                bad.append((f'{tag}:waiter:{x["name"]}',
                            f'{tag} k={k}: awaited call "{x["name"]}" on side {x["side"]} is STILL PENDING after the '
                            f'connection is gone and every timer has fired'))
    for side in range(nsides):
        final = res['final'][side]
        for h in closed_handles(res, side):
            for reg, keys in sorted(final.items()):
                if res['cut'][0] == 'loss' and reg.startswith('controller.'):
                    continue  # the controller cannot be told that its host is gone
                stale = [key for key in keys if key[0] == h]
                if stale:
                    bad.append((f'{tag}:stale:{reg}',
                                f'{tag} k={k}: side {side} registry {reg} still holds {stale} after handle {h} closed'))
    seen_exc = set()
    for e in res.get('callback_exceptions', []):
        # No exception may escape a listener while the stacks tear the connection down: it aborts
        # the synchronous fan-out for every listener after it.
        if e['after_cut'] and e['where'] not in seen_exc:
            seen_exc.add(e['where'])
            bad.append((f'{tag}:exception:{e["where"]}',
                        f'{tag} k={k}: {e["type"]} raised in {e["where"]} escaped from an event handler during '
                        f'the teardown (the rest of the disconnection fan-out is skipped)'))
    if cut is not None and cut[0] == 'disc' and res['cut_fired'] and 'aux_handle' not in res:
        # both stacks have closed the connection: nothing the stacks spawned for it may still be waiting
        for name in res.get('internal_tasks_left', []):
            bad.append((f'{tag}:internal:{name}',
                        f'{tag} k={k}: task {name} spawned by the stack is STILL PENDING after the connection is '
                        f'gone on both sides and every timer has fired'))
    for side in range(nsides):
        final = res['final'][side]
        ctl = sorted(final['controller.Controller.le_connections'] + final['controller.Controller.classic_connections'])
        host = final['host.Host.connections']
        dev = final['device.Device.connections']
        lost = cut is not None and cut[0] == 'loss' and cut[1] == side and res['cut_fired']
        if host != dev or (not lost and ctl != host):
            bad.append((f'{tag}:agree',
                        f'{tag} k={k}: side {side} layers disagree: controller {ctl} host {host} device {dev}'))
    seen_acl = set()
    for side, h in res.get('acl_for_closed', []):
        if (side, h) not in seen_acl:
            seen_acl.add((side, h))
            bad.append((f'{tag}:acl-for-closed-handle',
                        f'{tag} k={k}: side {side}: the host handed an ACL packet for handle {h} to the controller '
                        f'after it had processed the disconnection of that handle (queued outbound data of a closed '
                        f'connection was not dropped; the controller buffers it takes are never given back)'))
    for q in res.get('queues', []):
        if q['pending'] != q['in_flight'] + q['waiting'] or q['in_flight'] != q['per_connection']:
            bad.append((f'{tag}:queue-accounting',
                        f'{tag} k={k}: side {q["side"]} {q["queue"]} data queue: pending {q["pending"]}, in flight '
                        f'{q["in_flight"]} (per connection {q["per_connection"]}), waiting {q["waiting"]}'))
    if res.get('epilogue') == 'pending':
        bad.append((f'{tag}:other-link:stalled',
                    f'{tag} k={k}: after the teardown the traffic of the OTHER link of stack 0 never completes '
                    f'(its packets / drain() wait forever for controller buffers)'))
    for side, g in enumerate(res.get('gate', [])):
        held = [name for name, v in sorted(g.items()) if v]
        if held:
            bad.append((f'{tag}:gate:{"+".join(held)}',
                        f'{tag} k={k}: side {side}: the HCI command gate is not free although everything is quiet '
                        f'({", ".join(held)})'))
    for side, (what, out) in enumerate(res.get('gate_probe', [])):
        if out == 'pending':
            bad.append((f'{tag}:gate-probe:{what}',
                        f'{tag} k={k}: side {side}: after the teardown a '
                        + ('Device.power_off() on the stack that lost its transport' if what == 'power_off'
                           else 'harmless HCI command (Read BD_ADDR)')
                        + ' never completes: the HCI command gate is wedged'))
    if 'aux_handle' in res and 'aux_works' in res:
        # links are independent: the other link of stack 0 keeps its state and still works
        for side, h in ((0, res['aux_handle'][0]), (2, res['aux_handle'][1])):
            was, now = _only(res['before'][side], h), _only(res['final'][side], h)
            for reg in sorted(was):
                if reg.startswith('host.DataPacketQueue._packets'):
                    continue
                if was[reg] != now.get(reg):
                    bad.append((f'{tag}:other-link:{reg}',
                                f'{tag} k={k}: side {side} registry {reg} of the OTHER link (handle {h}) changed from '
                                f'{was[reg]} to {now.get(reg)} when handle {res["handle"][0]} was torn down'))
        if res['aux_works'] != 'result':
            bad.append((f'{tag}:other-link:traffic',
                        f'{tag} k={k}: after the teardown the other link of stack 0 no longer carries a GATT read '
                        f'and an L2CAP write ({res["aux_works"]})'))
    return bad


# ============================================================================= model side
TABLE_REGS = ('controller.Controller.le_connections', 'controller.Controller.classic_connections',
              'host.Host.connections', 'device.Device.connections')

# harness waiter kind -> (model kind, how the model starts it)
MODEL_KIND = {
    'gatt_request': 'WConnBound HkConnListeners',
    'gatt_request_queued': 'WTimerOnly',
    'eatt_request': 'WConnBound HkBearerClose',
    'indicate': 'WTimerOnly',
    'indicate_queued': 'WTimerOnly',
    'indicate_all': 'WTimerOnly',
    'pair': 'WConnBound HkConnListeners',
    'l2cap_connect': 'WConnBound HkL2cap',
    'l2cap_disconnect': 'WConnBound HkL2cap',
    'l2cap_drain': 'WConnBound HkL2cap',
    'sdp_request': 'WConnBound HkBearerClose',
    'avdtp_request': 'WConnBound HkBearerClose',
    'rfcomm_connect': 'WConnBound HkBearerClose',
    'rfcomm_open': 'WConnBound HkBearerClose',
    'hci_event': 'WLate HkConnListeners',
    'hci_command': None,      # HciCommand
    'disconnect': None,       # LocalDisc
    'local': None,            # does not wait for the peer
}


def model_reg_name(reg):
    return reg.split(':')[0]


def model_ops(res, side):
    """The abstract history of one stack for one case, from what the harness observed just
    before the fan-out: which registries held an entry of the connection and which awaited
    calls were pending.  Returns (coq op list text, [(waiter name, model id)])."""
    h = res['handle'][side]
    pre = res['pre'][side]
    handles = sorted({key[0] for key in pre['device.Device.connections']} | {h})
    ops = []
    for hh in handles:
        ops += [f'Establish {hh}', 'DeliverC2H']
    seen = set()
    for reg in sorted(pre):
        if reg in TABLE_REGS:
            continue
        for key in pre[reg]:
            name = model_reg_name(reg)
            if (name, key[0], key[1]) in seen:
                continue
            seen.add((name, key[0], key[1]))
            ops.append(f'Insert "{name}"%string ({key[0]}, {key[1]})')
    ids = []
    for i, (name, kind, st) in enumerate(res['pre_waiters'][side]):
        if st != 'pending':
            continue
        wid = 100 + i
        mk = MODEL_KIND[kind]
        if kind == 'hci_command':
            ops.append(f'HciCommand {wid}')
        elif kind == 'disconnect':
            ops.append(f'LocalDisc {wid} {h}')
        elif kind == 'local':
            continue
        elif kind == 'hci_event':
            ops += [f'Start {wid} ({mk}) ({h}, 0)', 'DeliverH2C', 'DeliverC2H', f'Resume {wid}']
        else:
            ops.append(f'Start {wid} ({mk}) ({h}, 0)')
        ids.append((name, wid))
    in_ctl = any(key[0] == h for key in pre['controller.Controller.le_connections'] +
                 pre['controller.Controller.classic_connections'])
    if not in_ctl:
        ops.append(f'PeerDisc {h}')       # the controller has already dropped it, the event is on its way
    late = [f'Resume {wid}' for name, wid in ids]      # tasks that were about to run do run
    if res['cut'][0] == 'loss':
        ops += ['Loss'] + late + ['Tick']
    else:
        ops += [f'PeerDisc {h}'] + ['DeliverH2C', 'DeliverC2H'] * 6 + late + ['Tick']
    return '[' + '; '.join(ops) + ']', ids


def model_expr(ops_text):
    return f'obs (run model_registries {ops_text} init)'


def wclass_model(code):
    return {10: 'prompt', 11: 'prompt', 12: 'prompt', 13: 'timer'}.get(code, 'never')


def wclass_impl(x):
    if x['prompt'] != 'pending':
        return 'prompt'
    return 'timer' if x['final'] != 'pending' else 'never'


def impl_regs(snap, h=None):
    """entries of the non-table registries (of every connection of the stack; of one when h is given)"""
    out = set()
    for reg, keys in snap.items():
        if reg in TABLE_REGS:
            continue
        for key in keys:
            if h is None or key[0] == h:
                out.add((model_reg_name(reg), key[0], key[1]))
    return sorted(out)


def compare(res, side, ids, mobs):
    """model observation vs implementation, one stack of one case; returns a description or None"""
    h = res['handle'][side]
    mctl, mhost, mdev, mregs, mwaiters = mobs
    final = res['final'][side]
    ictl = sorted(k[0] for k in final['controller.Controller.le_connections'] +
                  final['controller.Controller.classic_connections'])
    ihost = sorted(k[0] for k in final['host.Host.connections'])
    idev = sorted(k[0] for k in final['device.Device.connections'])
    if sorted(mhost) != ihost or sorted(mdev) != idev:
        return f'tables: model host {mhost} dev {mdev}, implementation host {ihost} dev {idev}'
    if res['cut'][0] != 'loss' and sorted(mctl) != ictl:
        # (after a transport loss the controller lives on without its host: not compared)
        return f'controller table: model {mctl}, implementation {ictl}'
    mr = sorted((r[1] if isinstance(r, tuple) and r[0] == 'str' else r, k[0], k[1]) for r, k in mregs)
    if mr != impl_regs(final):
        return f'registries at the end: model {mr}, implementation {impl_regs(final)}'
    mrh = [x for x in mr if x[1] == h]
    if res['post'][side] is not None and mrh != impl_regs(res['post'][side], h):
        # (only the connection under test: a transport loss may follow its disconnection)
        return (f'registries of handle {h} right after the fan-out: model {mrh}, '
                f'implementation {impl_regs(res["post"][side], h)}')
    codes = dict((wid, code) for wid, code in mwaiters)
    by_name = {x['name']: x for x in res['waiters'] if x['side'] == side}
    for name, wid in ids:
        if by_name[name]['prompt'] == 'result':
            continue    # the peer's answer won the race (Finish before the fan-out in the model)
        mc, ic = wclass_model(codes.get(wid)), wclass_impl(by_name[name])
        if mc != ic:
            return f'awaited call "{name}": model releases it {mc}, implementation {ic} ({by_name[name]})'
    return None


# ============================================================================= campaign
def _pool_map(cases):
    # serial on purpose: a case takes ~25 ms; forking workers costs more than it saves here
    return [run_case(*c) for c in cases]


def cut_points(rng, n, limit):
    """every k when there are at most `limit`, else both ends and random ones in between"""
    if n + 1 <= limit:
        return list(range(0, n + 1))
    ks = {0, 1, 2, 3, n - 2, n - 1, n}
    while len(ks) < limit:
        ks.add(rng.range(4, n - 3))
    return sorted(ks)


def aux_cut_points(rng, n, limit):
    if n + 1 <= limit:
        return list(range(0, n + 1))
    ks = {1, n // 2}
    while len(ks) < min(limit, n + 1):
        ks.add(rng.range(0, n))
    return sorted(ks)


def load_corpus():
    import glob
    out = []
    d = os.path.join(os.path.dirname(os.path.dirname(os.path.dirname(os.path.abspath(__file__)))), 'corpus', 'C16')
    for path in sorted(glob.glob(os.path.join(d, '*.json'))):
        with open(path) as f:
            obj = json.load(f)
        for c in obj.get('cases', [obj]):
            out.append((c['proc'], tuple(c['cut']), c['k']))
    return out


def campaign(ctx, full, procs=None):
    """Runs the uncut baselines, then every (procedure, cut, k) of the tier.  Reports oracle
    violations and model/implementation disagreements through ctx."""
    procs = procs or list(PROCEDURES)
    bases = _pool_map([(p, None, None) for p in procs])
    cases = []
    seen = set()
    for c in load_corpus():
        if c[0].replace('+aux', '') in PROCEDURES and c not in seen:
            seen.add(c)
            cases.append(c)
    for p, base in zip(procs, bases):
        if 'crash' in base or 'setup_error' in base or 'budget' in base:
            ctx.disagree('uncut run of the procedure does not complete', {'proc': p}, None,
                         {k: base.get(k) for k in ('crash', 'setup_error', 'budget', 'tb')})
            continue
        ctx.count('procedures')
        ctx.count(f'uncut_packets.{p}', base['packets'])
        ctx.case((p, 'uncut'), True, None)
        for sig, text in oracle(base):
            ctx.violation(sig, text, {'proc': p, 'cut': None, 'k': None})
        if any(x['final'] != 'result' for x in base['waiters']) and p not in OPEN_ENDED:
            ctx.disagree('uncut procedure does not end with a result', {'proc': p}, 'result', base['waiters'])
        ks = cut_points(ctx.rng, base['packets'], 10 ** 6 if full else ctx.n(14, 10 ** 6))
        for cut in CUTS:
            for k in ks:
                c = (p, cut, k)
                if c not in seen:
                    seen.add(c)
                    cases.append(c)
        if not PROCEDURES[p][0] and p not in NO_AUX:
            # the same procedure while stack 0 has a second, busy link to a third stack
            for cut in CUTS:
                for k in aux_cut_points(ctx.rng, base['packets'], 10 ** 6 if full else ctx.n(2, 10 ** 6)):
                    c = (p + '+aux', cut, k)
                    if c not in seen:
                        seen.add(c)
                        cases.append(c)
    results = _pool_map(cases)
    exprs, wanted = [], []
    for res in results:
        key = (res['proc'], tuple(res['cut']), res['k'])
        if 'crash' in res or 'setup_error' in res:
            ctx.disagree('harness could not run the case', list(key), None,
                         {k: res.get(k) for k in ('crash', 'setup_error', 'tb')})
            continue
        bad = oracle(res)
        for sig, text in bad:
            ctx.violation(sig, text, {'proc': res['proc'], 'cut': res['cut'], 'k': res['k']})
        ctx.count(f'cut.{res["cut"][0]}{res["cut"][1]}')
        ctx.count('cases')
        for x in res['waiters']:
            ctx.count(f'outcome.{x["final"]}' + ('.after_timer' if x['prompt'] == 'pending' and x['final'] != 'pending' else ''))
        nontrivial = False
        for side in closed_sides(res['cut']):
            if res['pre'][side] is None:
                ctx.count('no_fanout_observed')
                continue
            pend = [w for w in res['pre_waiters'][side] if w[2] == 'pending']
            extra = impl_regs(res['pre'][side], res['handle'][side])
            nontrivial = nontrivial or bool(pend) or bool(extra)
            ctx.count('fanouts_observed')
            ctx.count('pending_waiters_at_fanout', len(pend))
            ctx.count('registry_entries_at_fanout', len(extra))
            if any(sig.split(':')[0] == f"{res['proc']}/{res['cut'][0]}{res['cut'][1]}@{res['k']}" for sig, _ in bad):
                ctx.count('cases_with_violation_not_compared')
                continue   # the implementation is wrong here (reported above); the model is of the repaired code
            ops_text, ids = model_ops(res, side)
            exprs.append(model_expr(ops_text))
            wanted.append((res, side, ids, ops_text))
        ctx.case(key, nontrivial,
                 {'proc': res['proc'], 'cut': res['cut'], 'k': res['k'], 'waiters': res['waiters']}
                 if nontrivial and len(ctx.samples) < 5 else None)
    uniq = sorted(set(exprs))
    vals = dict(zip(uniq, ctx.coq_eval(['Model.Teardown'], uniq))) if uniq else {}
    ctx.count('model_evaluations', len(uniq))
    for (res, side, ids, ops_text), e in zip(wanted, exprs):
        why = compare(res, side, ids, vals[e])
        if why:
            ctx.disagree(f'teardown of side {side}: {why}',
                         {'proc': res['proc'], 'cut': res['cut'], 'k': res['k'], 'model_ops': ops_text},
                         vals[e], {'final': {k: v for k, v in res['final'][side].items() if v},
                                   'waiters': res['waiters']})
    return results


def run(ctx):
    ctx.rule = ('case = (procedure that awaits the peer, cut kind disc|loss, side, k): two real Devices + Hosts + '
                'Controllers on a LocalLink; after the k-th HCI packet delivered across a host/controller boundary '
                '(k = 0..N, N = packets of the uncut run; quick tier: all k when N <= 14, else 14 of them incl. both '
                'ends) the side disconnects / loses its transport; loop run to idle, timers advanced on a virtual '
                'clock. Non-trivial = at least one awaited call pending or one registry entry present when the '
                'fan-out ran. Model ops are derived from the registry contents and pending calls observed just '
                'before the fan-out; compared: tables, registry contents right after the fan-out and at the end, '
                'release class (prompt|timer|never) of each call.')
    ctx.assumptions += [
        'a waiter that is released only by its own 30 s GATT/ATT timer counts as released (the property says '
        '"instead of waiting forever"); timers are fired on a virtual clock, never waited for',
        'the cut is injected at a message boundary (after the k-th packet has been delivered); API calls made on a '
        'connection object after the device has dropped it are outside the property',
        'model: timers of calls on live connections never fire; HCI command semaphore not modelled; one stack, '
        'the peer is environment',
        'after a transport loss the virtual controller is exempt from the agreement (it cannot be told)',
    ]
    ctx.trusted += ['Model/Teardown.v is a hand-written abstraction of host.py / device.py / controller.py / '
                    'gatt_server.py / gatt_client.py / smp.py / l2cap.py teardown paths; tied to the code by the '
                    'presence translator (Gen/C16Cleanup.v) and by differential execution of the fan-out step',
                    'asyncio internals loop._ready / loop._scheduled are read to detect idleness (CPython 3.12)']
    global EXTRA_ATTRS, _FULL_DONE
    broken = bool(ctx.proof_failures)
    if broken:
        # The translator or a theorem failed.  The driver only calls search() when no oracle
        # violation at all was reported (known ones included), so the directed search is done
        # here: every cut point of every procedure, watching also the containers the
        # translator could not classify.
        ctx.log('proof obligations broken: running the full campaign as directed search')
        try:
            from translate import c16_registries as tr
            EXTRA_ATTRS = tr.unclassified(ctx.repo)
        except Exception:
            EXTRA_ATTRS = []
        ctx.extra['watched_unclassified_containers'] = [list(x) for x in EXTRA_ATTRS]
    full = broken or not ctx.quick()
    campaign(ctx, full=full)
    _FULL_DONE = full


_FULL_DONE = False


def search(ctx):
    """The proof, the translator or the correspondence broke: run every cut point of every
    procedure, with any container attribute the translator could not classify added to the
    snapshot generically, and let the oracle look for stale entries / hanging calls."""
    global EXTRA_ATTRS
    if _FULL_DONE:
        return
    try:
        from translate import c16_registries as tr
        EXTRA_ATTRS = tr.unclassified(ctx.repo)
    except Exception:
        EXTRA_ATTRS = []
    campaign(ctx, full=True)


def replay(ctx, obj):
    r = obj['replay']
    res = run_case(r['proc'], tuple(r['cut']) if r['cut'] else None, r['k'])
    for k in ('crash', 'setup_error', 'budget', 'packets', 'cut_fired'):
        if k in res:
            print(k + ':', res[k])
    for x in res.get('waiters', []):
        print('awaited call', x)
    for side in (0, 1):
        print(f'side {side} registries at the end:', {k: v for k, v in res['final'][side].items() if v})
    bad = oracle(res)
    for sig, text in bad:
        print('ORACLE FAILS:', text)
    if not bad:
        print('oracle: holds')
    return 1 if bad else 0


# ============================================================================= translator
def regen(ctx):
    from translate import c16_registries as tr
    found = tr.scan(ctx.repo)
    ctx.write_gen('C16Cleanup', tr.render(found))
    sh = tr.shapes(ctx.repo)
    ctx.write_gen('C16Shapes', tr.render_shapes(sh))
    ctx.extra['shape_tokens'] = sum(len(t) for _, t in sh)
    ctx.extra['registries_found'] = [list(x) for x in found]
    ctx.obligations.append({'name': 'translator: every container attribute of the 7 classes classified '
                                    f'({len(found)} connection-keyed registries)', 'ok': True})
