"""C04 — DataPacketQueue and FlowControlAsyncPipe: correspondence with the Coq models
(Model/DataQueue.v, Model/Pipe.v) and the property oracle on the implementation."""
import asyncio
import itertools
import json
import logging

from lib.verif import coq_list, coq_z

PROP_FILES = ['Props/C04.v']
LEVEL = 'proof'

logging.disable(logging.CRITICAL)


def regen(ctx):
    from translate import c04_shape
    ctx.write_gen('C04Shape', c04_shape.translate(ctx.repo))


# ----------------------------------------------------------------------------- queue
def gen_queue_history(rng, max_len):
    maxf = rng.choice([1, 1, 2, 2, 3, 4, 7])
    nh = rng.choice([1, 2, 2, 3, 4])
    handles = list(range(1, nh + 1))
    n = rng.range(1, max_len)
    ops = []
    pid = 100
    for _ in range(n):
        r = rng.below(100)
        if r < 50:
            ops.append(['E', pid, rng.choice(handles)])
            pid += 1
        elif r < 85:
            h = rng.choice(handles) if rng.chance(9, 10) else 99  # 99: unknown handle
            k = rng.choice([0, 1, 1, 1, 2, 2, 3, maxf, maxf + 1, maxf + 3])
            ops.append(['C', k, h])
        else:
            ops.append(['F', rng.choice(handles) if rng.chance(9, 10) else 99])
    return maxf, ops


def enum_queue_histories(depth):
    """every history of the given length over a small alphabet (thorough tier)"""
    alphabet = [('E', 1), ('E', 2), ('C1', 1), ('C1', 2), ('C3', 1), ('F', 1), ('F', 2)]
    for maxf in (1, 2):
        for seq in itertools.product(alphabet, repeat=depth):
            ops = []
            pid = 100
            for kind, h in seq:
                if kind == 'E':
                    ops.append(['E', pid, h])
                    pid += 1
                elif kind == 'F':
                    ops.append(['F', h])
                else:
                    ops.append(['C', int(kind[1]), h])
            yield maxf, ops


def queue_ops_coq(ops):
    def one(o):
        if o[0] == 'E':
            return f'Enqueue {coq_z(o[1])} {coq_z(o[2])}'
        if o[0] == 'F':
            return f'Flush {coq_z(o[1])}'
        return f'Completed {coq_z(o[1])} {coq_z(o[2])}'
    return coq_list(ops, one)


def run_queue_impl(maxf, ops, via_host=False):
    """Drive the real DataPacketQueue; returns (per-op sent lists, final observables).
    With via_host the completion reports and flushes go through the real Host event
    handlers (on_hci_number_of_completed_packets_event / on_hci_disconnection_complete_event)."""
    from bumble import hci
    from bumble.host import DataPacketQueue, Host, Connection
    from bumble.core import PhysicalTransport

    sent = []
    q = DataPacketQueue(27, maxf, sent.append)
    handle_of = {}
    per_op = []
    host = None
    if via_host:
        host = Host()
        host.le_acl_packet_queue = q
        host.acl_packet_queue = None
        host.iso_packet_queue = None

    def ensure_conn(h):
        if host is not None and h != 99 and h not in host.connections:
            host.connections[h] = Connection(host, h, hci.Address('00:11:22:33:44:55'), PhysicalTransport.LE)

    for o in ops:
        before = len(sent)
        if o[0] == 'E':
            ensure_conn(o[2])
            handle_of[o[1]] = o[2]
            q.enqueue(o[1], o[2])
        elif o[0] == 'F':
            if host is not None:
                ensure_conn(o[1])
                host.on_hci_disconnection_complete_event(
                    hci.HCI_Disconnection_Complete_Event(status=0, connection_handle=o[1], reason=0x13))
            else:
                q.flush(o[1])
        else:
            if host is not None:
                ensure_conn(o[2])
                host.on_hci_number_of_completed_packets_event(
                    hci.HCI_Number_Of_Completed_Packets_Event(connection_handles=[o[2]],
                                                              num_completed_packets=[o[1]]))
            else:
                q.on_packets_completed(o[1], o[2])
        per_op.append([[p, handle_of[p]] for p in sent[before:]])
    conns = sorted([h, st.in_flight, st.drained.is_set()] for h, st in q._connection_state.items())
    waiting = [[p, h] for (p, h) in reversed(q._packets)]
    obs = [q._in_flight, conns, waiting, q.pending]
    return per_op, obs


def queue_oracle(maxf, ops, per_op):
    """The property stated over implementation observables only (what was handed to the
    controller after each operation), against an independent ledger:
    spec FIFO + per-connection credit ledger.  Returns None or a description."""
    wait = []          # spec waiting list
    ledger = {}        # handle -> packets handed over and not yet credited / flushed
    seen = set()
    for i, (o, out) in enumerate(zip(ops, per_op)):
        if o[0] == 'E':
            wait.append([o[1], o[2]])
        elif o[0] == 'F':
            wait = [x for x in wait if x[1] != o[1]]
            ledger.pop(o[1], None)
        else:
            if o[2] in ledger:
                ledger[o[2]] = max(0, ledger[o[2]] - o[1])
        if out != wait[:len(out)]:
            return f'op {i} {o}: handed over {out}, expected a prefix of {wait}'
        for p, h in out:
            if p in seen:
                return f'op {i}: packet {p} handed over twice'
            seen.add(p)
            ledger[h] = ledger.get(h, 0) + 1
        wait = wait[len(out):]
        infl = sum(ledger.values())
        if infl > maxf:
            return f'op {i} {o}: {infl} packets in flight > max {maxf}'
        if wait and infl < maxf:
            return f'op {i} {o}: {len(wait)} packets waiting with {maxf - infl} free buffers'
    return None


def drain_oracle(maxf, ops):
    """drain(h) completes as soon as every packet handed over for h has been completed
    or discarded (run on an event loop; liveness only: the code sets the event whenever
    the in-flight count of the connection reaches zero, even if more of its packets are
    still waiting for a credit - see DESIGN.md, C04 open question;
    the ledger is computed from the send callback and the operations, not from the
    queue's private counters)."""
    from bumble.host import DataPacketQueue

    async def main():
        handle_of = {}
        ledger = {}

        def send(p):
            h = handle_of[p]
            ledger[h] = ledger.get(h, 0) + 1

        q = DataPacketQueue(27, maxf, send)
        waiters = {}
        bad = None
        for i, o in enumerate(ops):
            if o[0] == 'E':
                handle_of[o[1]] = o[2]
                q.enqueue(o[1], o[2])
            elif o[0] == 'F':
                ledger.pop(o[1], None)      # before the call: the call may hand over more
                q.flush(o[1])
            else:
                if o[2] in ledger:
                    ledger[o[2]] = max(0, ledger[o[2]] - o[1])
                q.on_packets_completed(o[1], o[2])
            # start a waiter on every connection that has had a packet handed over
            for h in list(ledger):
                if h not in waiters or waiters[h].done():
                    waiters[h] = asyncio.ensure_future(q.drain(h))
            await asyncio.sleep(0)
            await asyncio.sleep(0)
            for h, w in waiters.items():
                if ledger.get(h, 0) == 0 and not w.done():
                    bad = f'op {i} {o}: drain({h}) still pending although nothing is in flight for it'
        for w in waiters.values():
            w.cancel()
        await asyncio.sleep(0)
        return bad
    return asyncio.run(main())


# ----------------------------------------------------------------------------- queue with a send callback that raises
def gen_fail_history(rng, max_len):
    maxf, ops = gen_queue_history(rng, max_len)
    ids = [o[1] for o in ops if o[0] == 'E']
    poison = sorted({rng.choice(ids) for _ in range(rng.choice([1, 1, 2, 3]))}) if ids else []
    return maxf, ops, poison


def run_queue_impl_f(maxf, ops, poison):
    """The real DataPacketQueue with a send callback that raises for the packets in `poison` (a transport write error);
    returns (per-op [handed over, raised], final observables)."""
    from bumble.host import DataPacketQueue

    sent = []

    def send(p):
        if p in poison:
            raise OSError('transport write failed')
        sent.append(p)
    q = DataPacketQueue(27, maxf, send)
    handle_of = {}
    per_op = []
    for o in ops:
        before = len(sent)
        raised = False
        try:
            if o[0] == 'E':
                handle_of[o[1]] = o[2]
                q.enqueue(o[1], o[2])
            elif o[0] == 'F':
                q.flush(o[1])
            else:
                q.on_packets_completed(o[1], o[2])
        except OSError:
            raised = True
        per_op.append([[[p, handle_of[p]] for p in sent[before:]], raised])
    conns = sorted([h, st.in_flight, st.drained.is_set()] for h, st in q._connection_state.items())
    waiting = [[p, h] for (p, h) in reversed(q._packets)]
    return per_op, [q._in_flight, conns, waiting, q.pending]


def fail_oracle(maxf, ops, poison, per_op):
    """Property over implementation observables only: the packets whose hand-over RETURNED are the ones in flight
    (independent ledger); they leave in FIFO order; a packet whose hand-over raised is lost to the transport error and
    costs no buffer; an operation that ran the send loop to its end (did not raise) never leaves a packet waiting while a
    buffer is free.  (After a hand-over raised the loop is left early; the next enqueue / flush / completion report for a
    known handle pumps the queue again - until then packets can wait: not judged, transport errors are outside the
    property's quantifier.)"""
    wait, ledger = [], {}
    stalled = False     # an operation raised and no operation has pumped the queue since
    for i, (o, (out, raised)) in enumerate(zip(ops, per_op)):
        pumps = True
        if o[0] == 'E':
            wait.append([o[1], o[2]])
        elif o[0] == 'F':
            wait = [x for x in wait if x[1] != o[1]]
            ledger.pop(o[1], None)
        elif o[2] in ledger:
            ledger[o[2]] = max(0, ledger[o[2]] - o[1])
        else:
            pumps = False       # a report for a handle with nothing handed over is ignored: it is not an event for the queue
        if raised:
            stalled = True
        elif pumps:
            stalled = False
        if out != wait[:len(out)]:
            return f'op {i} {o}: handed over {out}, expected a prefix of {wait}'
        for p, h in out:
            ledger[h] = ledger.get(h, 0) + 1
        wait = wait[len(out):]
        if raised:
            if not wait or wait[0][0] not in poison:
                return f'op {i} {o}: raised although no failing hand-over was due'
            wait = wait[1:]
        infl = sum(ledger.values())
        if infl > maxf:
            return f'op {i} {o}: {infl} packets in flight > max {maxf}'
        if wait and infl < maxf and not stalled:
            return (f'op {i} {o}: {len(wait)} packets waiting with {maxf - infl} free buffers (the controller holds {infl}; '
                    f'hand-overs that raised: {[p for p in poison]})')
    return None


def check_fail_cases(ctx, cases):
    exprs = [f"let '(s, outs) := q_run_f (in_list {coq_list(poison, coq_z)}) (q_init {m}) {queue_ops_coq(ops)} in (outs, q_obs s)"
             for m, ops, poison in cases]
    model = ctx.coq_eval(['Model.DataQueue', 'Model.DataQueueFail'], exprs)
    for k, ((maxf, ops, poison), mres) in enumerate(zip(cases, model)):
        per_op, obs = run_queue_impl_f(maxf, ops, poison)
        nraised = sum(1 for _, r in per_op if r)
        ctx.case(('qf', maxf, ops, poison), nraised > 0, {'kind': 'queue-fail', 'max_in_flight': maxf, 'ops': ops, 'poison': poison} if k == 7 else None)
        ctx.count('queue_fail.histories')
        ctx.count('queue_fail.raised_ops', nraised)
        mouts, (minfl, mconns, mwait, mpending) = mres
        m = [[[[list(x) for x in out], bool(r)] for (out, r) in mouts],
             [minfl, sorted([list(c) for c in mconns]), [list(x) for x in mwait], mpending]]
        if m != [per_op, obs]:
            ctx.disagree('DataPacketQueue with a raising send callback', {'max_in_flight': maxf, 'ops': ops, 'poison': poison}, m, [per_op, obs])
        bad = fail_oracle(maxf, ops, poison, per_op)
        if bad:
            ctx.violation('queue-fail:' + bad.split(':', 1)[1].strip().split(' ')[0] + ':' + _shape(ops),
                          f'DataPacketQueue max_in_flight={maxf}, hand-over of {poison} raises: {bad}',
                          {'kind': 'queue-fail', 'max_in_flight': maxf, 'ops': ops, 'poison': poison})


CORPUS_FAIL = [
    # seeded C04-f: the credit taken before a hand-over that raises is never given back
    (1, [['E', 100, 1], ['E', 101, 1], ['E', 102, 1], ['C', 1, 1], ['C', 1, 1]], [100]),
    (2, [['E', 100, 1], ['E', 101, 2], ['E', 102, 1], ['E', 103, 2], ['C', 1, 1], ['C', 1, 2], ['E', 104, 1]], [101]),
]


# ----------------------------------------------------------------------------- host level
def gen_host_scenario(rng):
    """A real Host reset against a real virtual Controller with generated buffer geometry (including a dual-mode
    controller WITHOUT dedicated LE buffers, i.e. LE shares the BR/EDR pool), k classic + k LE connections, and a
    history of send / complete / disconnect operations."""
    shared = rng.chance(1, 2)
    geom = {'acl_len': rng.choice([27, 64, 251]), 'acl_count': rng.choice([1, 2, 3, 4, 8]),
            'le_len': 0 if shared else rng.choice([27, 64, 251]), 'le_count': 0 if shared else rng.choice([1, 2, 3, 8])}
    nc, nl = rng.choice([0, 1, 1, 2]), rng.choice([1, 1, 2])
    handles = [['c', 1 + i] for i in range(nc)] + [['l', 0x41 + i] for i in range(nl)]
    ops = []
    live = [h for _, h in handles]
    for _ in range(rng.range(4, 40)):
        r = rng.below(100)
        if r < 55 and live:
            ops.append(['S', rng.choice(live), rng.choice([1, 1, 2, 3])])      # send k one-fragment SDUs
        elif r < 80:
            ops.append(['C', rng.choice([1, 1, 2, 3, 9])])                   # controller completes k held packets, one event each
        elif r < 92:
            # ONE Number_Of_Completed_Packets event reporting k held packets for several handles at once, with an
            # entry for a handle the host has no data queue for (unknown / SCO) placed first, in the middle or last
            ops.append(['M', rng.choice([1, 2, 3, 9]), rng.choice(['first', 'middle', 'last', 'none']),
                        rng.choice([0x0EEE, 0x0123])])
        elif live:
            h = rng.choice(live)
            live.remove(h)
            ops.append(['D', h])                                           # the connection goes away
    ops.append(['C', 999])
    return {'geom': geom, 'handles': handles, 'ops': ops}


def run_host_scenario(sc):
    """Returns None or a description of the violation, judged at the host/controller boundary only."""
    from bumble import hci
    from bumble.controller import Controller
    from bumble.host import Host
    from bumble.transport.common import AsyncPipeSink

    g = sc['geom']
    kind = {h: k for k, h in sc['handles']}

    class Ctl(Controller):
        def __init__(self):
            super().__init__('C')
            self.acl_data_packet_length = g['acl_len']
            self.total_num_acl_data_packets = g['acl_count']
            self.le_acl_data_packet_length = g['le_len']
            self.total_num_le_acl_data_packets = g['le_count']
            self.held = []          # occupied buffers, oldest first
            self.received = []
            self.over = None

        def pool(self, handle):
            return 'le' if (kind.get(handle) == 'l' and g['le_count']) else 'acl'

        def on_hci_acl_data_packet(self, packet):
            self.held.append(packet)
            self.received.append((packet.connection_handle, bytes(packet.data)))
            for pool, cap in (('acl', g['acl_count']), ('le', g['le_count'])):
                n = sum(1 for p in self.held if self.pool(p.connection_handle) == pool)
                if cap and n > cap and self.over is None:
                    self.over = f'{n} packets outstanding in the {pool} pool, the controller advertised {cap}'

    async def main():
        ctl = Ctl()
        host = Host(ctl, AsyncPipeSink(ctl))
        await host.reset()

        async def settle():
            for _ in range(12):
                await asyncio.sleep(0)

        for k, h in sc['handles']:
            if k == 'c':
                ctl.send_hci_packet(hci.HCI_Connection_Complete_Event(
                    status=0, connection_handle=h, bd_addr=hci.Address(f'11:22:33:44:55:{h:02X}', hci.Address.PUBLIC_DEVICE_ADDRESS),
                    link_type=hci.HCI_Connection_Complete_Event.LinkType.ACL, encryption_enabled=0))
            else:
                ctl.send_hci_packet(hci.HCI_LE_Connection_Complete_Event(
                    status=0, connection_handle=h, role=hci.Role.CENTRAL, peer_address_type=hci.AddressType.PUBLIC_DEVICE,
                    peer_address=hci.Address(f'AA:BB:CC:DD:EE:{h:02X}', hci.Address.PUBLIC_DEVICE_ADDRESS),
                    connection_interval=24, peripheral_latency=0, supervision_timeout=100, central_clock_accuracy=0))
        await settle()
        expected = {h: [] for _, h in sc['handles']}
        dead = set()
        seq = 0
        for o in sc['ops']:
            if o[0] == 'S':
                for _ in range(o[2]):
                    sdu = bytes([o[1] & 0xFF, seq & 0xFF, seq >> 8])
                    seq += 1
                    expected[o[1]].append(sdu)
                    host.send_acl_sdu(o[1], sdu)
            elif o[0] == 'C':
                for _ in range(o[1]):
                    if not ctl.held:
                        break
                    pkt = ctl.held.pop(0)
                    if pkt.connection_handle in dead:
                        continue                      # buffers of a dead link are freed by the disconnection
                    ctl.send_hci_packet(hci.HCI_Number_Of_Completed_Packets_Event(
                        connection_handles=[pkt.connection_handle], num_completed_packets=[1]))
                    await settle()
            elif o[0] == 'M':
                batch = []
                while ctl.held and len(batch) < o[1]:
                    pkt = ctl.held.pop(0)
                    if pkt.connection_handle not in dead:
                        batch.append(pkt.connection_handle)
                if batch:
                    hs, cs = [], []
                    for h in batch:
                        if h in hs:
                            cs[hs.index(h)] += 1
                        else:
                            hs.append(h)
                            cs.append(1)
                    if o[2] != 'none':
                        pos = {'first': 0, 'middle': len(hs) // 2, 'last': len(hs)}[o[2]]
                        hs.insert(pos, o[3])
                        cs.insert(pos, 1)
                    ctl.send_hci_packet(hci.HCI_Number_Of_Completed_Packets_Event(
                        connection_handles=hs, num_completed_packets=cs))
                    await settle()
            else:
                dead.add(o[1])
                ctl.held = [p for p in ctl.held if p.connection_handle != o[1]]
                ctl.send_hci_packet(hci.HCI_Disconnection_Complete_Event(status=0, connection_handle=o[1], reason=0x13))
            await settle()
            if ctl.over:
                return ctl.over
        for h, sdus in expected.items():
            got = [d for (hh, d) in ctl.received if hh == h]
            if h in dead:
                if got != sdus[:len(got)]:
                    return f'handle 0x{h:04X} (disconnected): handed over {len(got)} packets that are not a prefix of the {len(sdus)} submitted'
            elif got != sdus:
                return f'handle 0x{h:04X}: {len(got)} packets handed over, not the {len(sdus)} submitted exactly once in order'
        return None
    return asyncio.run(main())


# ----------------------------------------------------------------------------- routing (handle re-use across link kinds)
KINDS = ['c', 'l', 'cis', 'bis']


def gen_routing_scenario(rng, max_ops=40):
    """A real Host reset against a real virtual Controller with three buffer pools (or two when LE shares the BR/EDR
    pool); links of four kinds (BR/EDR ACL, LE ACL, CIS, BIS of a BIG) come and go on a SMALL set of handles, so that a
    handle is re-used by a link of another kind (another queue); traffic, completion reports (one per packet, several
    handles per event, spurious reports for live / closed / unknown handles, over-reports)."""
    shared = rng.chance(1, 3)
    geom = {'acl_count': rng.choice([1, 2, 3, 4]), 'le_count': 0 if shared else rng.choice([1, 2, 3]),
            'iso_count': rng.choice([1, 2, 3])}
    pool = rng.choice([[1, 2], [1, 2, 3], [16, 17, 18]])
    live = {}
    ops = []
    big = 0
    for _ in range(rng.range(6, max_ops)):
        r = rng.below(100)
        free = [h for h in pool if h not in live]
        if r < 22 and free:
            k = rng.choice(KINDS)
            h = rng.choice(free)
            if k == 'bis':
                big += 1
                hs = [h]
                others = [x for x in free if x != h]
                if others and rng.chance(1, 3):
                    hs.append(rng.choice(others))
                for x in hs:
                    live[x] = ('bis', big)
                ops.append(['O', 'bis', hs, big, rng.choice(['create', 'sync'])])
            else:
                live[h] = (k, None)
                ops.append(['O', k, [h]])
        elif r < 36 and live:
            h = rng.choice(sorted(live))
            k, b = live[h]
            if k == 'bis':
                for x in [x for x in live if live[x] == ('bis', b)]:
                    del live[x]
                ops.append(['X', 'bis', b, rng.choice(['terminate', 'lost'])])
            else:
                del live[h]
                ops.append(['X', k, h])
        elif r < 70 and live:
            ops.append(['S', rng.choice(sorted(live)), rng.choice([1, 1, 2, 3, 5])])
        elif r < 88:
            ops.append(['C', rng.choice([1, 1, 2, 3, 9])])
        elif r < 93:
            ops.append(['M', rng.choice([2, 3, 9])])
        elif r < 96 and [h for h in live if live[h][0] != 'bis']:
            # Disconnection Complete with a FAILURE status: the link stays up, nothing is discarded or credited
            ops.append(['Z', rng.choice(sorted(h for h in live if live[h][0] != 'bis')), rng.choice([0x0C, 0x02, 0x1F])])
        else:
            ops.append(['R', rng.choice(pool + [0x0EEE]), rng.choice([0, 1, 2, 7])])
    ops.append(['C', 999])
    return {'geom': geom, 'ops': ops}


def run_routing_scenario(sc):
    """Returns (model ops as Coq text pieces, sent log [[id, handle]], per-queue observables, oracle verdict or None)."""
    from bumble import hci
    from bumble.controller import Controller
    from bumble.host import Host
    from bumble.transport.common import AsyncPipeSink

    g = sc['geom']
    shared = not g['le_count']
    qidx = {'c': 0, 'l': 0 if shared else 1, 'cis': 1 if shared else 2, 'bis': 1 if shared else 2}
    caps = [g['acl_count'], g['iso_count']] if shared else [g['acl_count'], g['le_count'], g['iso_count']]

    class Ctl(Controller):
        def __init__(self):
            super().__init__('C')
            self.acl_data_packet_length = 251
            self.total_num_acl_data_packets = g['acl_count']
            self.le_acl_data_packet_length = 0 if shared else 251
            self.total_num_le_acl_data_packets = g['le_count']
            self.iso_data_packet_length = 251
            self.total_num_iso_data_packets = g['iso_count']
            self.held = []          # occupied buffers, oldest first: (pool index, handle, packet id)
            self.log = []

        def on_hci_packet(self, packet):
            if isinstance(packet, hci.HCI_AclDataPacket):
                d = bytes(packet.data)
                self.got(packet.connection_handle, d[0] | (d[1] << 8))
            elif isinstance(packet, hci.HCI_IsoDataPacket):
                d = bytes(packet.iso_sdu_fragment)
                self.got(packet.connection_handle, d[0] | (d[1] << 8))
            else:
                super().on_hci_packet(packet)

    async def main():
        ctl = Ctl()
        host = Host(ctl, AsyncPipeSink(ctl))
        await host.reset()
        queues = [host.acl_packet_queue, host.iso_packet_queue] if shared else \
                 [host.acl_packet_queue, host.le_acl_packet_queue, host.iso_packet_queue]
        if shared and host.le_acl_packet_queue is not host.acl_packet_queue:
            return None, None, None, 'controller reports no LE buffers but the host built a separate LE queue'
        live = {}           # handle -> kind
        bigs = {}
        bad = []
        over = []
        closing = set()
        lied = []           # the controller reported completions it had not earned: the credit bound is then its problem

        def got(handle, pid):
            k = live.get(handle)
            if k is None and handle in closing:
                # Host.remove_big flushes the BIS handles of a BIG one after the other: a waiting packet of a BIS that
                # is next in line may still be handed over (to a controller that no longer knows the handle, and that
                # will never report it: its credit is released by that handle's own flush, a moment later)
                ctl.log.append([pid, handle])
                return
            if k is None:
                bad.append(f'packet {pid} handed to the controller for handle 0x{handle:04X}, which has no live link')
                return
            ctl.held.append((qidx[k], handle, pid))
            ctl.log.append([pid, handle])
            n = sum(1 for x in ctl.held if x[0] == qidx[k])
            if n > caps[qidx[k]] and not lied:
                over.append(f'{n} packets outstanding in pool {qidx[k]}, the controller advertised {caps[qidx[k]]}')
        ctl.got = got

        async def settle():
            for _ in range(12):
                await asyncio.sleep(0)

        def report(hs, cs):
            ctl.send_hci_packet(hci.HCI_Number_Of_Completed_Packets_Event(connection_handles=hs, num_completed_packets=cs))

        mops = []
        submitted = {}      # (handle, incarnation) -> ids
        inc = {}
        seq = 0
        for o in sc['ops']:
            if o[0] == 'O':
                k, hs = o[1], o[2]
                for h in hs:
                    live[h] = k
                    inc[h] = inc.get(h, 0) + 1
                    mops.append(f'HOpen {h} {qidx[k]}%nat')
                if k == 'c':
                    ctl.send_hci_packet(hci.HCI_Connection_Complete_Event(
                        status=0, connection_handle=hs[0], bd_addr=hci.Address(f'11:22:33:44:55:{hs[0] & 0xFF:02X}', hci.Address.PUBLIC_DEVICE_ADDRESS),
                        link_type=hci.HCI_Connection_Complete_Event.LinkType.ACL, encryption_enabled=0))
                elif k == 'l':
                    ctl.send_hci_packet(hci.HCI_LE_Connection_Complete_Event(
                        status=0, connection_handle=hs[0], role=hci.Role.CENTRAL, peer_address_type=hci.AddressType.PUBLIC_DEVICE,
                        peer_address=hci.Address(f'AA:BB:CC:DD:EE:{hs[0] & 0xFF:02X}', hci.Address.PUBLIC_DEVICE_ADDRESS),
                        connection_interval=24, peripheral_latency=0, supervision_timeout=100, central_clock_accuracy=0))
                elif k == 'cis':
                    ctl.send_hci_packet(hci.HCI_LE_CIS_Established_Event(
                        status=0, connection_handle=hs[0], cig_sync_delay=0, cis_sync_delay=0, transport_latency_c_to_p=0,
                        transport_latency_p_to_c=0, phy_c_to_p=1, phy_p_to_c=1, nse=1, bn_c_to_p=1, bn_p_to_c=1, ft_c_to_p=1,
                        ft_p_to_c=1, max_pdu_c_to_p=100, max_pdu_p_to_c=100, iso_interval=8))
                else:
                    bigs[o[3]] = list(hs)
                    if o[4] == 'create':
                        ctl.send_hci_packet(hci.HCI_LE_Create_BIG_Complete_Event(
                            status=0, big_handle=o[3], big_sync_delay=0, transport_latency_big=0, phy=1, nse=1, bn=1, pto=0,
                            irc=1, max_pdu=100, iso_interval=8, connection_handle=list(hs)))
                    else:
                        ctl.send_hci_packet(hci.HCI_LE_BIG_Sync_Established_Event(
                            status=0, big_handle=o[3], transport_latency_big=0, nse=1, bn=1, pto=0, irc=1, max_pdu=100,
                            iso_interval=8, connection_handle=list(hs)))
            elif o[0] == 'X':
                if o[1] == 'bis':
                    hs = bigs.pop(o[2])
                    for h in list(set(hs)):                 # Host.remove_big walks the set of BIS handles
                        mops.append(f'HCloseOwn {h}')
                    for h in hs:
                        del live[h]
                    closing.update(hs)
                    ctl.held = [x for x in ctl.held if x[1] not in hs]
                    if o[3] == 'terminate':
                        ctl.send_hci_packet(hci.HCI_LE_Terminate_BIG_Complete_Event(big_handle=o[2], reason=0x16))
                    else:
                        ctl.send_hci_packet(hci.HCI_LE_BIG_Sync_Lost_Event(big_handle=o[2], reason=0x08))
                else:
                    h = o[2]
                    mops.append(f'HClose {h}')
                    del live[h]
                    ctl.held = [x for x in ctl.held if x[1] != h]
                    ctl.send_hci_packet(hci.HCI_Disconnection_Complete_Event(status=0, connection_handle=h, reason=0x13))
            elif o[0] == 'S':
                h = o[1]
                for _ in range(o[2]):
                    sdu = bytes([seq & 0xFF, seq >> 8, 0x5A])
                    submitted.setdefault((h, inc[h]), []).append(seq)
                    mops.append(f'HSend {seq} {h}')
                    if live[h] in ('c', 'l'):
                        host.send_acl_sdu(h, sdu)
                    else:
                        host.send_iso_sdu(h, sdu)
                    seq += 1
            elif o[0] == 'C':
                for _ in range(o[1]):
                    if not ctl.held:
                        break
                    _, h, _ = ctl.held.pop(0)
                    mops.append(f'HDone 1 {h}')
                    report([h], [1])
                    await settle()
            elif o[0] == 'M':
                hs, cs = [], []
                while ctl.held and sum(cs) < o[1]:
                    _, h, _ = ctl.held.pop(0)
                    if h in hs:
                        cs[hs.index(h)] += 1
                    else:
                        hs.append(h)
                        cs.append(1)
                if hs:
                    for h, c in zip(hs, cs):
                        mops.append(f'HDone {c} {h}')
                    report(hs, cs)
            elif o[0] == 'Z':
                ctl.send_hci_packet(hci.HCI_Disconnection_Complete_Event(status=o[2], connection_handle=o[1], reason=0x13))
            else:
                # a report the controller should not send (nothing held is released): stale / duplicate / unknown handle
                mops.append(f'HDone {o[2]} {o[1]}')
                if o[2] > 0 and o[1] in live:
                    lied.append(1)
                report([o[1]], [o[2]])
            await settle()
            closing.clear()
            if over:
                return None, None, None, over[0]
            if bad:
                return None, None, None, bad[0]
        # oracle (implementation observables only): per link incarnation, what reached the controller is a prefix of
        # what was submitted (all of it for a link that is still live: every completion was reported at the end) ...
        sent_by = {}
        ptr = {h: 0 for h in inc}
        # attribute each logged packet to the incarnation that submitted that id
        owner = {pid: key for key, ids in submitted.items() for pid in ids}
        for pid, h in ctl.log:
            sent_by.setdefault(owner.get(pid), []).append(pid)
        verdict = None
        spurious = any(o[0] == 'R' and o[2] > 0 for o in sc['ops'])
        for key, ids in submitted.items():
            got_ids = sent_by.get(key, [])
            h, n = key
            still_live = (h in live and inc[h] == n)
            if got_ids != ids[:len(got_ids)]:
                verdict = f'handle 0x{h:04X} (link #{n} on it): handed over {got_ids}, not a prefix of the submitted {ids}'
            elif still_live and got_ids != ids and not spurious:
                verdict = (f'handle 0x{h:04X} (link #{n} on it, live): {len(ids) - len(got_ids)} packet(s) left waiting although the '
                           f'controller reported every buffer free')
            if verdict:
                break
        if verdict is None and not spurious:
            for i, q in enumerate(queues):
                if q.pending != 0:
                    verdict = f'queue {i}: pending={q.pending} after every packet was reported completed or its link closed'
                    break
        if verdict is None:
            # ... and no queue keeps anything for a handle without a live link routed to it (also with spurious reports)
            for i, q in enumerate(queues):
                known = set(q._connection_state) | {h for (_, h) in q._packets}
                stale = sorted(h for h in known if live.get(h) is None or qidx[live[h]] != i)
                if stale:
                    verdict = f'queue {i} keeps state for handle(s) {stale} that have no live link on it'
                    break
        obs = []
        for q in queues:
            conns = sorted([h, st.in_flight, st.drained.is_set()] for h, st in q._connection_state.items())
            waiting = []
            for (p, h) in reversed(q._packets):
                d = bytes(p.data) if isinstance(p, hci.HCI_AclDataPacket) else bytes(p.iso_sdu_fragment)
                waiting.append([d[0] | (d[1] << 8), h])
            obs.append([q._in_flight, conns, waiting, q.pending])
        return mops, ctl.log, obs, verdict
    return asyncio.run(main())


def routing_model_expr(sc, mops):
    g = sc['geom']
    caps = [g['acl_count'], g['iso_count']] if not g['le_count'] else [g['acl_count'], g['le_count'], g['iso_count']]
    return (f"let '(s, sent) := h_run (h_init {coq_list(caps, coq_z)}) [{'; '.join(mops)}] in "
            f"(sent, map q_obs (h_queues s))")


CORPUS_ROUTING = [
    # seeded C04-e: BIS on the ISO queue, BIG terminated, handle re-used by an LE ACL link
    {'geom': {'acl_count': 4, 'le_count': 2, 'iso_count': 2},
     'ops': [['O', 'bis', [16], 1, 'create'], ['S', 16, 3], ['C', 9], ['X', 'bis', 1, 'terminate'], ['O', 'l', [16]],
             ['S', 16, 5], ['C', 999]]},
    # seeded C04-g: a FAILED disconnection of the link that holds the buffers must not release its credits
    {'geom': {'acl_count': 4, 'le_count': 2, 'iso_count': 1},
     'ops': [['O', 'l', [1]], ['O', 'l', [2]], ['S', 1, 2], ['S', 2, 2], ['Z', 1, 0x0C], ['C', 999]]},
    # seeded C16-e: a link closed while all its packets are still queued behind another link's
    {'geom': {'acl_count': 4, 'le_count': 2, 'iso_count': 1},
     'ops': [['O', 'l', [1]], ['O', 'l', [2]], ['S', 1, 2], ['S', 2, 2], ['X', 'l', 2], ['C', 9], ['S', 1, 1], ['C', 999]]},
]


def check_routing(ctx, scs):
    runs = [run_routing_scenario(sc) for sc in scs]
    todo = [(sc, r) for sc, r in zip(scs, runs) if r[0] is not None]
    model = ctx.coq_eval(['Model.DataQueue', 'Model.QueueRouting'], [routing_model_expr(sc, r[0]) for sc, r in todo])
    mit = iter(model)
    for k, (sc, (mops, log, obs, verdict)) in enumerate(zip(scs, runs)):
        reuse = len({h for o in sc['ops'] if o[0] == 'O' for h in o[2]}) < sum(len(o[2]) for o in sc['ops'] if o[0] == 'O')
        ctx.case(('r', json.dumps(sc, sort_keys=True)), reuse, {'kind': 'routing', **sc} if k == 2 else None)
        ctx.count('routing.scenarios')
        ctx.count('routing.handle_reused' if reuse else 'routing.no_reuse')
        for o in sc['ops']:
            ctx.count('routing.op.' + o[0] + (':' + o[1] if o[0] in 'OX' else ''))
        if mops is not None:
            msent, mobs = next(mit)
            m = [[list(x) for x in msent],
                 [[i, sorted([list(c) for c in cs]), [list(x) for x in w], p] for (i, cs, w, p) in mobs]]
            if m != [log, obs]:
                ctx.disagree('Host queue routing', sc, m, [log, obs])
        if verdict:
            ctx.violation('routing:' + verdict.split(' ')[0] + ':' + ''.join(o[0] + (o[1][0] if o[0] in 'OX' else '') for o in sc['ops'][:10]),
                          f'Host + controller {sc["geom"]}: {verdict}', {'kind': 'routing', **sc})



# ----------------------------------------------------------------------------- pipe
def gen_pipe_history(rng, max_len):
    threshold = rng.choice([0, 1, 3, 10, 1000])
    n = rng.range(1, max_len)
    ops = []
    pid = 0
    for _ in range(n):
        r = rng.below(100)
        if r < 45:
            ops.append(['W', pid, rng.choice([1, 1, 2, 5, 20])])
            pid += 1
        elif r < 60:
            ops.append(['P'])
        elif r < 75:
            ops.append(['R'])
        else:
            ops.append(['D'])       # sink progress: drain_sink() returns
    return threshold, ops


def run_pipe_impl(threshold, ops, with_drain):
    """Drive the real FlowControlAsyncPipe.  After every external op the loop is run
    to idle.  Returns the callback trace as codes: packet id / -1 pause / -2 resume,
    and the final queue."""
    from bumble.utils import FlowControlAsyncPipe

    async def main():
        trace = []
        gate = []

        async def drain_sink():
            fut = asyncio.get_running_loop().create_future()
            gate.append(fut)
            await fut

        pipe = FlowControlAsyncPipe(lambda: trace.append(-1), lambda: trace.append(-2),
                                    lambda p: trace.append(p[0]), drain_sink if with_drain else None, threshold)
        pipe.start()

        async def settle():
            for _ in range(6):
                await asyncio.sleep(0)

        await settle()
        for o in ops:
            if o[0] == 'W':
                pipe.write((o[1],) + (0,) * (o[2] - 1))
            elif o[0] == 'P':
                pipe.pause()
            elif o[0] == 'R':
                pipe.resume()
            else:
                if gate:
                    gate.pop(0).set_result(None)
            await settle()
        q = [p for p in pipe.queue]
        ntrace = len(trace)
        # liveness epilogue (not part of the compared trace): let the sink make progress
        # until nothing moves any more
        for _ in range(2 * len(ops) + 4):
            if not gate:
                break
            gate.pop(0).set_result(None)
            await settle()
        final_q = [p for p in pipe.queue]
        epilogue = trace[ntrace:]
        del trace[ntrace:]
        pipe.stop()
        for g in gate:
            g.cancel()
        return trace, q, epilogue, final_q
    return asyncio.run(main())


def pipe_model_ops(ops, with_drain):
    """The model schedule matching run_pipe_impl: the loop is run to idle after every
    op, so the pump task takes every step that is enabled."""
    out = ['PumpA']
    for o in ops:
        if o[0] == 'W':
            out.append(f'Write {o[1]} {o[2]}')
        elif o[0] == 'P':
            out.append('Pause')
        elif o[0] == 'R':
            out.append('Resume')
        else:
            out.append('PumpB')
            out.append('PumpA')
            continue
        out.append('PumpA')
    return '[' + '; '.join(out) + ']'


# ----------------------------------------------------------------------------- run
CORPUS_QUEUE = [
    # D04a: flush must pump the queue
    (1, [['E', 100, 1], ['E', 101, 2], ['F', 1]]),
    # D04c: over-report then flush must not drive the in-flight count negative
    (3, [['E', 100, 1], ['E', 101, 2], ['E', 102, 2], ['C', 3, 1], ['F', 2],
         ['E', 103, 1], ['E', 104, 1], ['E', 105, 1], ['E', 106, 1], ['E', 107, 1]]),
]
CORPUS_PIPE = [
    # D04b: LIFO pump
    (100, [['W', 0, 1], ['W', 1, 1], ['W', 2, 1], ['D'], ['D'], ['D']]),
]


def run(ctx):
    ctx.rule = ('queue: random histories of enqueue/flush/completed over 1-4 handles, max_in_flight 1-7, '
                'over-reports and unknown handles, a third routed through Host event handlers; thorough adds '
                'every history of length <=5 over a 7-letter alphabet. pipe: random write/pause/resume/'
                'sink-progress histories, loop run to idle after each op. A case is non-trivial when at least '
                'one packet had to wait (queue) / at least two packets were written (pipe); distinct by content.')
    ctx.assumptions += [
        'asyncio runs a coroutine atomically up to its next await (the pipe model cuts pump() at drain_sink())',
        'completion counts are unsigned (they come from a uint16 HCI field)',
    ]
    ctx.trusted += ['Model/DataQueue.v and Model/Pipe.v are hand-written readings of host.py DataPacketQueue and '
                    'utils.py FlowControlAsyncPipe, tied to the code by differential execution only']
    rng = ctx.rng
    # ---- queue
    cases = list(CORPUS_QUEUE)
    for _ in range(ctx.n(1500, 20000)):
        cases.append(gen_queue_history(rng, rng.choice([4, 8, 16, 30])))
    if not ctx.quick():
        for d in (3, 4, 5):
            cases.extend(enum_queue_histories(d))
        ctx.extra['exhaustive_queue_depth'] = 5
    exprs = [f"let '(s, sent) := q_run (q_init {m}) {queue_ops_coq(ops)} in (sent, q_obs s)" for m, ops in cases]
    model = ctx.coq_eval(['Model.DataQueue'], exprs)
    for k, ((maxf, ops), mres) in enumerate(zip(cases, model)):
        via_host = (k % 3 == 2)
        per_op, obs = run_queue_impl(maxf, ops, via_host)
        waited = any(not out for o, out in zip(ops, per_op) if o[0] == 'E')
        ctx.case(('q', maxf, ops), waited, {'kind': 'queue', 'max_in_flight': maxf, 'ops': ops} if k % 400 == 5 else None)
        ctx.count('queue.histories')
        ctx.count('queue.ops', len(ops))
        ctx.count('queue.via_host' if via_host else 'queue.direct')
        for o in ops:
            ctx.count('queue.op.' + o[0])
        msent, (minfl, mconns, mwait, mpending) = mres
        impl_sent = [list(x) for out in per_op for x in out]
        m = [[list(x) for x in msent], [minfl, sorted([list(c) for c in mconns]), [list(x) for x in mwait], mpending]]
        i = [impl_sent, obs]
        if m != i:
            ctx.disagree('DataPacketQueue', {'max_in_flight': maxf, 'ops': ops, 'via_host': via_host}, m, i)
        bad = queue_oracle(maxf, ops, per_op)
        if bad:
            ctx.violation('queue:' + bad.split(':', 1)[1].strip().split(' ')[0] + ':' + _shape(ops),
                          f'DataPacketQueue max_in_flight={maxf}: {bad}',
                          {'kind': 'queue', 'max_in_flight': maxf, 'ops': ops, 'via_host': via_host})
        if k % 10 == 0:
            bad = drain_oracle(maxf, ops)
            ctx.count('queue.drain_checked')
            if bad:
                ctx.violation('drain:' + _shape(ops), f'DataPacketQueue max_in_flight={maxf}: {bad}',
                              {'kind': 'drain', 'max_in_flight': maxf, 'ops': ops})
    # ---- queue whose send callback raises for some packets
    check_fail_cases(ctx, list(CORPUS_FAIL) + [gen_fail_history(rng, rng.choice([6, 12, 24])) for _ in range(ctx.n(400, 6000))])
    # ---- host level: queues as Host.reset() wires them to what the controller advertises
    for k in range(ctx.n(60, 1500)):
        sc = gen_host_scenario(rng)
        bad = run_host_scenario(sc)
        nsent = sum(o[2] for o in sc['ops'] if o[0] == 'S')
        ctx.case(('h', json.dumps(sc, sort_keys=True)), nsent > sc['geom']['acl_count'], {'kind': 'host', **sc} if k == 3 else None)
        ctx.count('host.scenarios')
        ctx.count('host.shared_pool' if not sc['geom']['le_count'] else 'host.dedicated_le_pool')
        if bad:
            ctx.violation('host:' + ('shared' if not sc['geom']['le_count'] else 'dedicated') + ':' + bad.split(' ')[1][:12],
                          f'Host + controller {sc["geom"]}: {bad}', {'kind': 'host', **sc})
    # ---- routing: several queues, links of all kinds coming and going on re-used handles
    check_routing(ctx, list(CORPUS_ROUTING) + [gen_routing_scenario(rng) for _ in range(ctx.n(250, 5000))])
    # ---- pipe
    pcases = [(t, ops, True) for t, ops in CORPUS_PIPE] + [(t, ops, False) for t, ops in CORPUS_PIPE]
    for _ in range(ctx.n(400, 4000)):
        t, ops = gen_pipe_history(rng, rng.choice([4, 8, 16, 30]))
        pcases.append((t, ops, rng.chance(2, 3)))
    with_drain = [c for c in pcases if c[2]]
    exprs = [f"let '(s, out) := p_run (p_init {t}) {pipe_model_ops(ops, True)} in (map pout_code out, map fst (p_queue s))"
             for t, ops, _ in with_drain]
    model = ctx.coq_eval(['Model.Pipe'], exprs)
    it = iter(model)
    for t, ops, wd in pcases:
        mres = next(it) if wd else None
        check_pipe_case(ctx, t, ops, wd, mres)


def check_pipe_case(ctx, t, ops, wd, mres):
    trace, q, epilogue, final_q = run_pipe_impl(t, ops, wd)
    nwrites = sum(1 for o in ops if o[0] == 'W')
    ctx.case(('p', t, ops, wd), nwrites >= 2, None)
    ctx.count('pipe.histories')
    ctx.count('pipe.with_drain_sink' if wd else 'pipe.no_drain_sink')
    written = [o[1] for o in ops if o[0] == 'W']
    sunk = [x for x in trace if x >= 0]
    queued = [p[0] for p in q]
    if mres is not None:
        mtrace, mq = mres
        if [list(mtrace), list(mq)] != [trace, queued]:
            ctx.disagree('FlowControlAsyncPipe', {'threshold': t, 'ops': ops}, [mtrace, mq], [trace, queued])
    # oracle: sink calls are a prefix of the writes, the rest is still queued, in order
    replay = {'kind': 'pipe', 'threshold': t, 'ops': ops, 'with_drain': wd}
    if sunk + queued != written:
        ctx.violation('pipe:order', f'pipe threshold={t}: sink got {sunk}, queue {queued}, written {written}', replay)
    paused = False
    for o in ops:
        if o[0] == 'P':
            paused = True
        elif o[0] == 'R':
            paused = False
    # oracle: never stalls: when the pipe is not paused and the sink keeps making
    # progress, everything written is delivered
    final_sunk = sunk + [x for x in epilogue if x >= 0]
    if not paused and (final_q or final_sunk != written):
        ctx.violation('pipe:stall', f'pipe threshold={t}: not paused, sink idle, but {[p[0] for p in final_q]} never '
                                    f'delivered (delivered {final_sunk}, written {written})', replay)


def _shape(ops):
    return ''.join(o[0] for o in ops[:12])


def search(ctx):
    """Directed search after a broken proof / correspondence: all short histories."""
    for d in (2, 3, 4, 5):
        for maxf, ops in enum_queue_histories(d):
            per_op, _ = run_queue_impl(maxf, ops)
            bad = queue_oracle(maxf, ops, per_op)
            if bad:
                ctx.violation('queue:search:' + _shape(ops), f'DataPacketQueue max_in_flight={maxf}: {bad}',
                              {'kind': 'queue', 'max_in_flight': maxf, 'ops': ops, 'via_host': False})
                return
    search_pipe(ctx)
    if not ctx.violations:
        for maxf, ops, poison in list(CORPUS_FAIL) + [gen_fail_history(ctx.rng, 16) for _ in range(3000)]:
            per_op, _ = run_queue_impl_f(maxf, ops, poison)
            bad = fail_oracle(maxf, ops, poison, per_op)
            if bad:
                ctx.violation('queue-fail:search:' + _shape(ops), f'DataPacketQueue max_in_flight={maxf}, hand-over of {poison} raises: {bad}',
                              {'kind': 'queue-fail', 'max_in_flight': maxf, 'ops': ops, 'poison': poison})
                return
    if not ctx.violations:
        for sc in list(CORPUS_ROUTING) + [gen_routing_scenario(ctx.rng, 60) for _ in range(1500)]:
            r = run_routing_scenario(sc)
            if r[3]:
                ctx.violation('routing:search', f'Host + controller {sc["geom"]}: {r[3]}', {'kind': 'routing', **sc})
                return
    if not ctx.violations:
        for _ in range(400):
            sc = gen_host_scenario(ctx.rng)
            bad = run_host_scenario(sc)
            if bad:
                ctx.violation('host:search', f'Host + controller {sc["geom"]}: {bad}', {'kind': 'host', **sc})
                return


def search_pipe(ctx):
    alphabet = [['W', None, 1], ['W', None, 5], ['P'], ['R'], ['D']]
    for depth in (3, 4, 5, 6):
        for t in (0, 10):
            for seq in itertools.product(alphabet, repeat=depth):
                ops = []
                pid = 0
                for o in seq:
                    if o[0] == 'W':
                        ops.append(['W', pid, o[2]])
                        pid += 1
                    else:
                        ops.append(list(o))
                for wd in (True, False):
                    before = len(ctx.violations)
                    check_pipe_case(ctx, t, ops, wd, None)
                    if len(ctx.violations) > before:
                        return


def replay(ctx, obj):
    r = obj['replay']
    if r['kind'] == 'queue':
        per_op, obs = run_queue_impl(r['max_in_flight'], r['ops'], r.get('via_host', False))
        print('sent per op:', per_op)
        print('oracle:', queue_oracle(r['max_in_flight'], r['ops'], per_op) or 'holds')
    elif r['kind'] == 'host':
        print('oracle:', run_host_scenario(r) or 'holds')
    elif r['kind'] == 'queue-fail':
        per_op, obs = run_queue_impl_f(r['max_in_flight'], r['ops'], r['poison'])
        print('per op [handed over, raised]:', per_op)
        print('oracle:', fail_oracle(r['max_in_flight'], r['ops'], r['poison'], per_op) or 'holds')
    elif r['kind'] == 'routing':
        mops, log, obs, verdict = run_routing_scenario(r)
        print('handed to the controller [id, handle]:', log)
        print('oracle:', verdict or 'holds')
    elif r['kind'] == 'drain':
        print('oracle:', drain_oracle(r['max_in_flight'], r['ops']) or 'holds')
    else:
        print('trace, queue, epilogue, final queue:', run_pipe_impl(r['threshold'], r['ops'], r['with_drain']))
    return 0
