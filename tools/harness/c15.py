"""C15 — JsonKeyStore / PairingKeys: correspondence with the Coq model (Model/KeyStore.v) on real
files, crash injection at every file-system step, and the property oracle on the implementation.

The real bumble.keys.JsonKeyStore runs on real files in a scratch directory under /verif/build.
While one of its operations runs, builtins.open / io.open / os.replace / os.rename /
pathlib.Path.mkdir / os.mkdir / os.makedirs / os.remove / os.unlink are wrapped IN THIS PROCESS
(bumble is not changed): every mutating file-system step on the scratch directory is recorded, and
the wrapper can raise at step k (after writing only the first `cut` bytes of a write) to simulate
the death of the process; after that every further mutation is a no-op."""
import asyncio
import builtins
import copy
import io
import json
import logging
import os
import pathlib
import shutil

from lib.verif import BUILD, Rng, coq_list, coq_z

PROP_FILES = ['Props/C15.v']
LEVEL = 'proof'


def regen(ctx):
    """the shape of bumble/keys.py -> coq/Gen/C15Source.v (fail closed), compared with the model by the
    C15_*_match(es)_source theorems of Props/C15.v"""
    from translate import c15_source
    ctx.write_gen('C15Source', c15_source.generate())

logging.disable(logging.CRITICAL)

FIELDS = ['address_type', 'ltk', 'ltk_central', 'ltk_peripheral', 'irk', 'csrk', 'link_key', 'link_key_type']
KEY_FIELDS = ['ltk', 'ltk_central', 'ltk_peripheral', 'irk', 'csrk', 'link_key']
DEFAULT = '__DEFAULT__'
MUTATING = ('update', 'delete', 'delete_all')

_REAL_OPEN = builtins.open
_REAL_IO_OPEN = io.open
_REAL_REPLACE = os.replace
_REAL_RENAME = os.rename
_REAL_PMKDIR = pathlib.Path.mkdir
_REAL_MKDIR = os.mkdir
_REAL_MAKEDIRS = os.makedirs
_REAL_REMOVE = os.remove
_REAL_UNLINK = os.unlink


# ----------------------------------------------------------------------------- file-system tap
class Crash(BaseException):
    """the simulated death of the process"""


class _FileProxy:
    def __init__(self, tap, f, tag):
        self._tap = tap
        self._f = f
        self._tag = tag
        self._closed = False
        tap.proxies.append(self)

    def write(self, s):
        tap = self._tap
        if tap.crashed:
            return len(s)
        n = len(s.encode('utf-8')) if isinstance(s, str) else len(s)

        def do():        # into the real file object's userspace buffer, exactly as in production
            self._f.write(s)
            return len(s)

        def partial(cut):
            self._f.write(s[:cut])
        return tap.step(['write', self._tag, n], do, partial)

    def writelines(self, lines):
        for l in lines:
            self.write(l)

    def flush(self):
        if not self._tap.crashed and not self._closed:
            self._tap.step(['flush', self._tag], self._f.flush)

    def close(self):
        if self._closed:
            return
        if self._tap.crashed:
            self._abandon()
            return
        self._tap.step(['close', self._tag], self._really_close)

    def _abandon(self):
        """the process is dead: what is still in the userspace buffer of the file object never reaches the
        file.  The descriptor is pointed at /dev/null before the object is closed, so the flush that close()
        performs goes nowhere; only what CPython itself had already flushed is in the file."""
        if not self._closed:
            self._closed = True
            try:
                dn = os.open(os.devnull, os.O_WRONLY)
                try:
                    os.dup2(dn, self._f.fileno())
                finally:
                    os.close(dn)
            finally:
                try:
                    self._f.close()
                except OSError:
                    pass

    def _really_close(self):
        if not self._closed:
            self._closed = True
            self._f.close()

    def __enter__(self):
        return self

    def __exit__(self, *a):
        self.close()
        return False

    def __getattr__(self, name):
        return getattr(self._f, name)


class Tap:
    def __init__(self, root, main, crash_at=None, cut=0):
        self.root = os.path.realpath(root)
        self.main = os.path.realpath(main)
        self.tmp = self.main + '.tmp'
        self.steps = []
        self.crash_at = crash_at
        self.cut = cut
        self.crashed = False
        self.crash_step = None
        self.proxies = []
        self.reads = 0
        self.nested = False

    # -- classification
    def tag(self, path):
        try:
            p = os.path.realpath(os.fspath(path))
        except TypeError:
            return None
        if p == self.main:
            return 'main'
        if p == self.tmp:
            return 'tmp'
        if p == self.root or p.startswith(self.root + os.sep):
            return 'other:' + os.path.relpath(p, self.root)
        return None

    def step(self, rec, do, partial=None):
        if self.crashed:
            return None
        if len(self.steps) > 100000:
            raise RuntimeError('step budget exhausted')
        if self.crash_at is not None and len(self.steps) == self.crash_at:
            self.crashed = True
            self.crash_step = rec
            try:
                if partial is not None and self.cut > 0:
                    partial(self.cut)
            finally:
                for p in self.proxies:       # buffered data dies with the process
                    p._abandon()
            raise Crash()
        r = do()
        self.steps.append(rec)
        return r

    # -- wrappers
    def _open(self, real):
        def opener(file, mode='r', *a, **kw):
            tag = self.tag(file) if isinstance(file, (str, bytes, os.PathLike)) else None
            if tag is None:
                return real(file, mode, *a, **kw)
            if any(c in mode for c in 'wax+'):
                if self.crashed:
                    raise Crash()
                kind = 'open' if 'w' in mode and '+' not in mode else 'open-' + mode
                f = self.step([kind, tag], lambda: real(file, mode, *a, **kw))
                return _FileProxy(self, f, tag)
            self.reads += 1
            return real(file, mode, *a, **kw)
        return opener

    def _rename(self, real):
        def rename(src, dst, *a, **kw):
            ts, td = self.tag(src), self.tag(dst)
            if ts is None and td is None:
                return real(src, dst, *a, **kw)
            return self.step(['rename', ts, td], lambda: real(src, dst, *a, **kw))
        return rename

    def _mk(self, real, is_method):
        def mk(path, *a, **kw):
            if self.nested or self.tag(path) is None:
                return real(path, *a, **kw)
            self.nested = True
            try:
                return self.step(['mkdir'], lambda: real(path, *a, **kw))
            finally:
                self.nested = False
        return mk

    def _rm(self, real):
        def rm(path, *a, **kw):
            t = self.tag(path)
            if t is None:
                return real(path, *a, **kw)
            return self.step(['remove', t], lambda: real(path, *a, **kw))
        return rm

    def __enter__(self):
        builtins.open = self._open(_REAL_OPEN)
        io.open = self._open(_REAL_IO_OPEN)
        os.replace = self._rename(_REAL_REPLACE)
        os.rename = self._rename(_REAL_RENAME)
        pathlib.Path.mkdir = self._mk(_REAL_PMKDIR, True)
        os.mkdir = self._mk(_REAL_MKDIR, False)
        os.makedirs = self._mk(_REAL_MAKEDIRS, False)
        os.remove = self._rm(_REAL_REMOVE)
        os.unlink = self._rm(_REAL_UNLINK)
        return self

    def __exit__(self, *a):
        builtins.open = _REAL_OPEN
        io.open = _REAL_IO_OPEN
        os.replace = _REAL_REPLACE
        os.rename = _REAL_RENAME
        pathlib.Path.mkdir = _REAL_PMKDIR
        os.mkdir = _REAL_MKDIR
        os.makedirs = _REAL_MAKEDIRS
        os.remove = _REAL_REMOVE
        os.unlink = _REAL_UNLINK
        for p in self.proxies:
            p._really_close()
        return False


# ----------------------------------------------------------------------------- scratch files
class Scratch:
    """one history's directory: root/[sub/]keys.json"""

    def __init__(self, root, dir_missing):
        self.root = root
        if os.path.exists(root):
            shutil.rmtree(root)
        os.makedirs(root)
        self.dir = os.path.join(root, 'sub') if dir_missing else root
        self.main = os.path.join(self.dir, 'keys.json')
        self.tmp = self.main + '.tmp'

    def snap(self):
        """(directory exists, {file name: bytes})"""
        if not os.path.isdir(self.dir):
            return (False, {})
        files = {}
        for n in sorted(os.listdir(self.dir)):
            p = os.path.join(self.dir, n)
            if os.path.isfile(p):
                with _REAL_OPEN(p, 'rb') as f:
                    files[n] = f.read()
        return (True, files)

    def restore(self, s):
        exists, files = s
        if os.path.isdir(self.dir):
            for n in os.listdir(self.dir):
                p = os.path.join(self.dir, n)
                if os.path.isfile(p):
                    os.remove(p)
                else:
                    shutil.rmtree(p)
            if not exists:
                os.rmdir(self.dir)
        elif exists:
            os.makedirs(self.dir)
        for n, b in files.items():
            with _REAL_OPEN(os.path.join(self.dir, n), 'wb') as f:
                f.write(b)

    def done(self):
        shutil.rmtree(self.root, ignore_errors=True)


def snap_obs(s):
    exists, files = s
    others = sorted(n for n in files if n not in ('keys.json', 'keys.json.tmp'))
    return exists, files.get('keys.json'), files.get('keys.json.tmp'), others


def checksum(b):
    a = 0
    for c in b:
        a = (a * 257 + c + 1) % 2147483647
    return a


def obs_file(b):
    return None if b is None else ('Some', (len(b), checksum(b)))


# ----------------------------------------------------------------------------- keys
def opt(x):
    return None if x is None else ('Some', x)


def make_keys(spec):
    from bumble import hci
    from bumble.keys import PairingKeys
    kw = {}
    for f in KEY_FIELDS:
        k = spec.get(f)
        if k is not None:
            kw[f] = PairingKeys.Key(bytes.fromhex(k['value']), k['auth'], k['ediv'],
                                    None if k['rand'] is None else bytes.fromhex(k['rand']))
    if spec.get('address_type') is not None:
        kw['address_type'] = hci.AddressType(spec['address_type'])
    if spec.get('link_key_type') is not None:
        kw['link_key_type'] = spec['link_key_type']
    return PairingKeys(**kw)


def canon_keys(pk):
    """PairingKeys -> the shape of Model.KeyStore.keys_obs as parsed by lib.verif.parse_coq"""
    def ck(k):
        if k is None:
            return None
        return ('Some', (list(k.value), k.authenticated, opt(k.ediv), opt(None if k.rand is None else list(k.rand))))
    return (opt(None if pk.address_type is None else int(pk.address_type)),
            ck(pk.ltk), ck(pk.ltk_central), ck(pk.ltk_peripheral), ck(pk.irk), ck(pk.csrk), ck(pk.link_key),
            opt(pk.link_key_type))


def spec_fields(spec):
    """the fields an update sets, in canonical form (independent of bumble)"""
    out = {}
    for f in FIELDS:
        v = spec.get(f)
        if v is None:
            continue
        if f in KEY_FIELDS:
            out[f] = ('Some', (list(bytes.fromhex(v['value'])), v['auth'], opt(v['ediv']),
                               opt(None if v['rand'] is None else list(bytes.fromhex(v['rand'])))))
        else:
            out[f] = ('Some', v)
    return out


def coq_str(s):
    return coq_list([ord(c) for c in s], coq_z)


def py_str(cps):
    return ''.join(chr(c) for c in cps)


def coq_opt(v, f):
    return 'None' if v is None else f'(Some {f(v)})'


def coq_key(k):
    return (f"(mkKey {coq_list(list(bytes.fromhex(k['value'])), coq_z)} {'true' if k['auth'] else 'false'} "
            f"{coq_opt(k['ediv'], coq_z)} {coq_opt(k['rand'], lambda r: coq_list(list(bytes.fromhex(r)), coq_z))})")


def coq_keys(spec):
    parts = [coq_opt(spec.get('address_type'), coq_z)]
    for f in KEY_FIELDS:
        parts.append(coq_opt(spec.get(f), coq_key))
    parts.append(coq_opt(spec.get('link_key_type'), coq_z))
    return '(mkKeys ' + ' '.join(parts) + ')'


def coq_op(it):
    o = it['op']
    if o == 'update':
        return f"(Update {coq_str(it['name'])} {coq_keys(it['keys'])})"
    if o == 'delete':
        return f"(Delete {coq_str(it['name'])})"
    if o == 'get':
        return f"(Get {coq_str(it['name'])})"
    return 'DeleteAll' if o == 'delete_all' else 'GetAll'


def handle_ns(h):
    return DEFAULT if not h else h


# ----------------------------------------------------------------------------- generation
NAMESPACES = ['NS1', '00:11:22:33:44:55', 'ns b', 'F0:F1:F2:F3:F4:F5', 'A',
              # names json.dump has to escape: quote, backslash, control characters, DEL, non-ASCII, beyond the BMP
              'n"s\\', '\u00e9t\u00e9', 'tab\there\n', '\U0001F600', '\x00']
PEERS = ['F0:F1:F2:F3:F4:F5', 'F0:F1:F2:F3:F4:F5/P', 'A', 'AB', 'a~!', 'NS1', 'B', '_z',
         'p"q', 'back\\slash/', '\x01\x1f\x7f', '\u20acuro', '\u03a9\U00010000\uffff', '\r\x08\x0c']


def gen_key(rng, small):
    n = 1 if small else rng.choice([16, 16, 16, 0, 1, 32])
    return {'value': rng.bytes(n).hex(), 'auth': rng.chance(1, 2),
            'ediv': rng.choice([None, None, 0, 1, 65535, rng.below(65536)] + ([] if small else [2 ** 40 + 5, -3])),
            'rand': rng.choice([None, None, '', rng.bytes(8).hex(), '00' * 8])}


def gen_keys(rng, small=False):
    spec = {}
    p = rng.choice([1, 2, 3]) if not small else 1
    for f in KEY_FIELDS:
        if rng.chance(p, 6 if not small else 9):
            spec[f] = gen_key(rng, small)
    if rng.chance(1, 3):
        spec['address_type'] = rng.choice([0, 1, 2, 3, 7, 255])
    if rng.chance(1, 4):
        spec['link_key_type'] = rng.choice([0, 4, 5, 255])
    if small and not spec:
        spec['irk'] = gen_key(rng, True)
    return spec


INITIAL_FILES = [
    # written by another tool (keys in sorted order, as every save of the store leaves them):
    # compact, upper-case hex, no "authenticated" member, other white space
    '{"NS1":{"A":{"address_type":1,"irk":{"value":"00FFa0"}}}}',
    '{"A": {}, "NS1": {"A": {"ltk": {"ediv": 0, "rand": "", "value": "0102"}}}}',
    '{\n "00:11:22:33:44:55" : {\r\n\t"B": {"link_key": {"authenticated": true, "value": ""}, "link_key_type": 0}}}',
    '{}',
    '{"NS1": {}}',
    # escapes another writer may use: \\/ and upper-case \\u, a surrogate pair, a raw DEL
    '{"NS1": {"\\u00C9\\/x\\ud83d\\ude00\x7f": {"address_type": 0, "irk": {"value": "aa"}}}}',
]


def gen_history(rng, max_len, small=False, crashes=True):
    nns = rng.choice([1, 2, 2, 3])
    pool = rng.shuffle(NAMESPACES)[:nns]
    handles = list(pool)
    if rng.chance(2, 3):
        handles.append(None)
    if rng.chance(1, 10):
        handles.append(DEFAULT)
    peers = rng.shuffle(PEERS)[:rng.choice([1, 2, 3, 4])]
    items = []
    for _ in range(rng.range(1, max_len)):
        r = rng.below(100)
        h = rng.choice(handles)
        it = {'h': h, 'reopen': rng.chance(1, 3)}
        if r < 45:
            it.update(op='update', name=rng.choice(peers), keys=gen_keys(rng, small))
        elif r < 60:
            it.update(op='delete', name=rng.choice(peers))
        elif r < 67:
            it.update(op='delete_all')
        elif r < 82:
            it.update(op='get', name=rng.choice(peers))
        else:
            it.update(op='get_all')
            if rng.chance(1, 2):
                it['resolving'] = True
        if crashes and it['op'] in MUTATING and rng.chance(1, 7):
            it['crash'] = [rng.below(1 << 30), rng.below(1 << 30)]
        items.append(it)
    return {'dir_missing': rng.chance(1, 3), 'initial': rng.choice(INITIAL_FILES) if rng.chance(1, 8) else None,
            'handles': sorted(set(handle_ns(h) for h in handles) | set(pool)), 'items': items,
            'pseed': rng.below(1 << 62)}


# ----------------------------------------------------------------------------- reference ("apply the updates in order")
class Ref:
    """Independent dict-based statement of what the store must return: namespace -> peer -> field -> value,
    with the documented default-namespace rule."""

    def __init__(self):
        self.db = {}

    def resolve(self, h):
        ns = handle_ns(h)
        if ns in self.db:
            return ns
        if ns == DEFAULT and len(self.db) == 1:
            return next(iter(self.db))
        return ns

    def view(self, h):
        m = self.db.get(self.resolve(h), {})
        return sorted((name, tuple(e.get(f) for f in FIELDS)) for name, e in m.items())

    def views(self, handles):
        return [(h, self.view(h)) for h in handles]

    def apply(self, it):
        """returns the expected result in the harness's canonical form"""
        ns = self.resolve(it['h'])
        op = it['op']
        if op == 'update':
            self.db.setdefault(ns, {}).setdefault(it['name'], {}).update(spec_fields(it['keys']))
            return (0, None, [])
        if op == 'delete':
            if it['name'] in self.db.get(ns, {}):
                del self.db[ns][it['name']]
                return (0, None, [])
            return (1, None, [])
        if op == 'delete_all':
            self.db[ns] = {}
            return (0, None, [])
        if op == 'get':
            e = self.db.get(ns, {}).get(it['name'])
            return (2, None if e is None else ('Some', tuple(e.get(f) for f in FIELDS)), [])
        return (3, None, self.view(it['h']))

    def load_json(self, text):
        """initial file written by someone else -> reference state"""
        for ns, m in json.loads(text).items():
            self.db[ns] = {}
            for name, d in m.items():
                e = {}
                for f, v in d.items():
                    if f in KEY_FIELDS:
                        e[f] = ('Some', (list(bytes.fromhex(v['value'])), v.get('authenticated', False), opt(v.get('ediv')),
                                         opt(None if v.get('rand') is None else list(bytes.fromhex(v['rand'])))))
                    else:
                        e[f] = ('Some', v)
                self.db[ns][name] = e


# ----------------------------------------------------------------------------- running the implementation
class Runner:
    def __init__(self, scratch_root):
        self.loop = asyncio.new_event_loop()
        self.scratch_root = scratch_root
        self.count = 0

    def close(self):
        self.loop.close()

    def call(self, store, it, tap):
        """one operation on the real store -> canonical result"""
        op = it['op']
        try:
            with tap:
                if op == 'update':
                    coro = store.update(it['name'], make_keys(it['keys']))
                elif op == 'delete':
                    coro = store.delete(it['name'])
                elif op == 'delete_all':
                    coro = store.delete_all()
                elif op == 'get':
                    coro = store.get(it['name'])
                else:
                    coro = store.get_all()
                r = self.loop.run_until_complete(asyncio.wait_for(coro, 600))
        except Crash:
            return (7, None, [])
        except json.JSONDecodeError:
            return (5, None, [])
        except KeyError:
            return (1, None, []) if op == 'delete' else (4, None, [])
        except (ValueError, TypeError, AttributeError) as e:
            return (4, None, []) if op in ('get', 'get_all') else ('raised', type(e).__name__, [])
        except Exception as e:  # anything else is reported, never swallowed
            return ('raised', type(e).__name__, [])
        if op == 'get':
            return (2, None if r is None else ('Some', canon_keys(r)), [])
        if op == 'get_all':
            return (3, None, [(name, canon_keys(k)) for name, k in r])
        return (0, None, [])

    def resolving(self, store):
        """KeyStore.get_resolving_keys on the real store; hci.Address is replaced by a recorder so that the
        observation is exactly what keys.py hands to it: [(irk value, name, address type)]"""
        from bumble import hci
        real = hci.Address

        class Recorder:
            RANDOM_DEVICE_ADDRESS = real.RANDOM_DEVICE_ADDRESS

            def __new__(cls, name, address_type=real.RANDOM_DEVICE_ADDRESS):
                return ('addr', name, int(address_type))
        hci.Address = Recorder
        try:
            r = self.loop.run_until_complete(asyncio.wait_for(store.get_resolving_keys(), 600))
            return [(list(v), a[1], a[2]) for v, a in r]
        except Exception as e:
            return ('raised', type(e).__name__)
        finally:
            hci.Address = real

    def fresh_views(self, sc, handles):
        """what fresh stores on the same path return, per handle; None in place of a view = raised"""
        from bumble.keys import JsonKeyStore
        out = []
        for h in handles:
            try:
                st = JsonKeyStore(h, sc.main)
                r = self.loop.run_until_complete(asyncio.wait_for(st.get_all(), 600))
                out.append((h, sorted((name, canon_keys(k)) for name, k in r)))
            except Exception as e:
                out.append((h, ('raised', type(e).__name__)))
        return out

    def run_history(self, hist, sweep):
        """sweep: 'none' | 'sample' | 'all' crash points of every mutating operation.
        Returns a dict with per-item implementation observations and the oracle's verdicts."""
        from bumble.keys import JsonKeyStore
        self.count += 1
        sc = Scratch(os.path.join(self.scratch_root, f'h{self.count}'), hist['dir_missing'])
        prng = Rng(hist['pseed'])
        ref = Ref()
        handles = sorted(set(hist['handles']) | {DEFAULT})
        res = {'items': [], 'violations': [], 'initial': None, 'final_main': None}
        try:
            if hist.get('initial') is not None:
                os.makedirs(sc.dir, exist_ok=True)
                with _REAL_OPEN(sc.main, 'wb') as f:
                    f.write(hist['initial'].encode('ascii'))
                ref.load_json(hist['initial'])
            res['initial'] = snap_obs(sc.snap())
            stores = {}
            for idx, it in enumerate(hist['items']):
                h = it['h']
                if it.get('reopen') or h not in stores:
                    stores[h] = JsonKeyStore(h, sc.main)
                store = stores[h]
                op = it['op']
                before = sc.snap()
                ref_before = copy.deepcopy(ref.db)
                adopt = handle_ns(h) == DEFAULT and ref.resolve(h) != DEFAULT
                where = f"{op}:{'default-adopts-single' if adopt else 'default' if handle_ns(h) == DEFAULT else 'named'}"
                expected = ref.apply(it)
                # ---- the complete operation
                tap = Tap(sc.root, sc.main)
                outcome = self.call(store, it, tap)
                after = sc.snap()
                row = {'outcome': outcome, 'steps': tap.steps, 'reads': tap.reads, 'points': [], 'mpoints': [], 'tags': [],
                       'crashed': None}
                res['items'].append(row)
                writes = [s[2] for s in tap.steps if s[0] == 'write']
                row['lens'] = writes[:-1]
                nsteps = len(tap.steps)
                new_main = snap_obs(after)[1]
                # ---- oracle: result and persistence of the complete operation
                got = outcome
                if op == 'get_all' and outcome[0] == 3:
                    got = (3, None, sorted(outcome[2]))
                if got != expected:
                    res['violations'].append((f'result:{where}', f'item {idx} {op} via {h!r}: returned {_short(got)}, '
                                              f'applying the history in order gives {_short(expected)}'))
                    break
                if op == 'get_all' and it.get('resolving'):
                    row['resolving'] = self.resolving(store)
                    want = [(e[4][1][0], name, e[0][1] if e[0] is not None else 1)
                            for name, e in ref.view(h) if e[4] is not None]
                    got_r = row['resolving']
                    if not isinstance(got_r, list) or sorted(got_r, key=lambda x: x[1]) != want:
                        res['violations'].append((f'resolving:{where}', f'item {idx} get_resolving_keys via {h!r}: '
                                                  f'{_short(got_r)}, the stored entries with an IRK are {_short(want)}'))
                        break
                if op in MUTATING:
                    fv = self.fresh_views(sc, handles)
                    if fv != ref.views(handles):
                        res['violations'].append((f'persist:{where}', f'item {idx} {op} via {h!r}: fresh stores read '
                                                  f'{_short(fv)}, expected {_short(ref.views(handles))}'))
                        break
                # ---- crash points
                if op in MUTATING and nsteps > 0:
                    points = self._points(tap.steps, sweep, prng)
                    inline = it.get('crash')
                    if inline:
                        k = _pick_k(inline[0], nsteps)
                        cut = inline[1] % (tap.steps[k][2] + 1) if k < nsteps and tap.steps[k][0] == 'write' else 0
                        points = [p for p in points if p != (k, cut)] + [(k, cut)]
                    views_before = Ref.views(_with(ref_before), handles)
                    views_after = ref.views(handles)
                    bad = False
                    for (k, cut) in points:
                        sc.restore(before)
                        tap2 = Tap(sc.root, sc.main, crash_at=k, cut=cut)
                        st2 = JsonKeyStore(h, sc.main)
                        out2 = self.call(st2, it, tap2)
                        crashed_state = sc.snap()
                        row['points'].append((k, cut))
                        # the model's cut: how much of the data the file object was holding survived the death
                        # (any buffering policy of the runtime is some such amount; the model is told which)
                        survived = snap_obs(crashed_state)[2]
                        row['mpoints'].append((k, 0 if survived is None else len(survived)))
                        row['tags'].append(_crash_tag(before, new_main, crashed_state, out2))
                        stepname = 'complete' if k >= nsteps else tap.steps[k][0] + ('-cut' if cut else '')
                        v, which = self._crash_oracle(sc, handles, crashed_state, views_before, views_after, before, after)
                        if v:
                            res['violations'].append((f'crash:{where}:{stepname}',
                                                      f'item {idx} {op} via {h!r}, process dies before step {k} '
                                                      f'({stepname}, cut {cut}) of {_steps_short(tap.steps)}: {v}'))
                            bad = True
                            break
                    if bad:
                        break
                    if inline and row['points'] and row['points'][-1][0] < nsteps:
                        # the history continues from the crashed state: nothing was committed
                        row['crashed'] = row['mpoints'][-1]
                        row['outcome_crashed'] = out2
                        after = crashed_state
                        if which == 'old':
                            ref.db = ref_before
                    else:
                        sc.restore(after)
                row['obs'] = snap_obs(after)
            res['final_main'] = snap_obs(sc.snap())[1]
        finally:
            sc.done()
        return res

    def _points(self, steps, sweep, prng):
        n = len(steps)
        if sweep == 'none':
            return []
        pts = []
        if sweep == 'all':
            for k in range(n + 1):
                if k < n and steps[k][0] == 'write':
                    ln = steps[k][2]
                    for cut in sorted({0, ln // 2, max(0, ln - 1)}):
                        pts.append((k, cut))
                else:
                    pts.append((k, 0))
            return pts
        ks = {0, 1, n - 2, n - 1, n}
        for _ in range(3):
            ks.add(prng.below(n + 1))
        for k in sorted(x for x in ks if 0 <= x <= n):
            if k < n and steps[k][0] == 'write':
                pts.append((k, prng.below(steps[k][2] + 1)))
            else:
                pts.append((k, 0))
        return pts

    def _crash_oracle(self, sc, handles, state, views_before, views_after, before, after):
        """the property, on implementation observables: the key file is complete old or complete new.
        Returns (violation or None, 'old' | 'new')."""
        _, main, _, _ = snap_obs(state)
        _, main_b, _, _ = snap_obs(before)
        _, main_a, _, _ = snap_obs(after)
        which = 'old'
        if main is not None:
            try:
                j = json.loads(main.decode('utf-8'))
            except ValueError:
                return f'the key file is not parseable ({len(main)} bytes: {main[:40]!r}...)', which
            old_j = json.loads(main_b.decode('utf-8')) if main_b is not None else None
            new_j = json.loads(main_a.decode('utf-8')) if main_a is not None else None
            if j != old_j and j != new_j:
                return 'the key file holds neither the previous nor the new database', which
            which = 'old' if j == old_j else 'new'
        elif main_b is not None:
            return 'the key file has disappeared', which
        fv = self.fresh_views(sc, handles)
        want = views_before if which == 'old' else views_after
        if fv != want:
            return (f'fresh stores read {_short(fv)}, the key file holds the {which} database: expected {_short(want)}'), which
        return None, which


def _with(db):
    r = Ref()
    r.db = db
    return r


def _pick_k(sel, nsteps):
    c = sel % 8
    if c == 0:
        return 0
    if c == 1:
        return nsteps - 1          # before the rename
    if c == 2:
        return nsteps - 2          # before the close
    if c == 3:
        return min(1, nsteps)
    return (sel // 8) % (nsteps + 1)


def _crash_tag(before, new_main, state, outcome):
    exists, main, tmp, others = snap_obs(state)
    _, main_b, _, _ = snap_obs(before)
    if main is None:
        t = 0
    elif main_b is not None and main == main_b:
        t = 1
    elif main == new_main:
        t = 2
    else:
        t = 3
    tm = None if tmp is None else ('Some', (len(tmp), new_main is not None and new_main.startswith(tmp)))
    return ('Some', (exists, t, tm)), others


def _short(v):
    s = repr(v)
    return s if len(s) < 300 else s[:300] + '...'


def _steps_short(steps):
    out = []
    for s in steps:
        if s[0] == 'write':
            if out and out[-1].startswith('write'):
                continue
            out.append('write*')
        else:
            out.append(' '.join(str(x) for x in s))
    return '[' + '; '.join(out) + ']'


# ----------------------------------------------------------------------------- model side
TAGCODE = {'main': 0, 'tmp': 1}


def step_codes(steps):
    out = []
    for s in steps:
        if s[0] == 'mkdir':
            out.append((0, 0))
        elif s[0] == 'open':
            out.append((10 + TAGCODE.get(s[1], 9), 0))
        elif s[0] == 'write':
            out.append((20 + TAGCODE.get(s[1], 9), s[2]))
        elif s[0] == 'close':
            out.append((30 + TAGCODE.get(s[1], 9), 0))
        elif s[0] == 'rename':
            out.append((40 + 2 * TAGCODE.get(s[1], 9) + TAGCODE.get(s[2], 9), 0))
        else:
            out.append((99, 0))
    return out


def model_expr(hist, res):
    exists, main, tmp, _ = res['initial']
    fs = (f"(mkFs {'true' if exists else 'false'} {coq_opt(main, lambda b: coq_list(list(b), coq_z))} "
          f"{coq_opt(tmp, lambda b: coq_list(list(b), coq_z))})")
    items = []
    for it, row in zip(hist['items'], res['items']):
        h = coq_str(handle_ns(it['h']))
        lens = f"(nats {coq_list(row['lens'], coq_z)})"
        if row.get('crashed'):
            k, cut = row['crashed']
            item = f"Crash {h} {coq_op(it)} {lens} {k}%nat {cut}%nat"
        else:
            item = f"Do {h} {coq_op(it)} {lens}"
        pts = '(nat_pairs ' + coq_list(row['mpoints'], lambda p: f'({p[0]}, {p[1]})') + ')'
        items.append(f'({item}, {pts})')
    return f"let '(t, f) := c_trace {fs} [{'; '.join(items)}] in (t, f_main f)"


def compare(ctx, hist, res, mres):
    """model trace vs implementation observations, item by item"""
    mt, mfinal = mres
    n = len(res['items'])
    for idx in range(n):
        row = res['items'][idx]
        if 'obs' not in row:
            break       # the oracle stopped the history here
        it = hist['items'][idx]
        tag, g, a, mobs, msteps, mtbl, mres_keys = mt[idx]
        m_out = (tag, g, [(py_str(nm), ko) for nm, ko in a])
        i_out = row.get('outcome_crashed') if row.get('crashed') else row['outcome']
        exists, main, tmp, others = row['obs']
        i_obs = (exists, obs_file(main), obs_file(tmp))
        if m_out != i_out:
            ctx.disagree('result', {'history': hist, 'item': idx}, m_out, i_out)
            return False
        if 'resolving' in row:
            m_r = None if mres_keys is None else [(v, py_str(nm), t) for v, nm, t in mres_keys[1]]
            if m_r != row['resolving']:
                ctx.disagree('get_resolving_keys', {'history': hist, 'item': idx}, m_r, row['resolving'])
                return False
        if [tuple(x) for x in msteps] != step_codes(row['steps']) or (it['op'] not in MUTATING and row['steps']):
            ctx.disagree('file-system steps', {'history': hist, 'item': idx}, msteps, row['steps'][:40])
            return False
        if tuple(mobs) != i_obs or others:
            ctx.disagree('files after the operation', {'history': hist, 'item': idx}, mobs, [i_obs, others])
            return False
        for p, mrow, (irow, oth) in zip(row['points'], mtbl, row['tags']):
            if mrow != irow or oth:
                ctx.disagree('state after a crash', {'history': hist, 'item': idx, 'point': p}, mrow, [irow, oth])
                return False
    else:
        want = None if res['final_main'] is None else ('Some', list(res['final_main']))
        if mfinal != want:
            ctx.disagree('final file text', {'history': hist}, mfinal, want)
            return False
    return True


# ----------------------------------------------------------------------------- corpus / directed cases
def K(v, auth=False, ediv=None, rand=None):
    return {'value': v, 'auth': auth, 'ediv': ediv, 'rand': rand}


def _fixed(items, handles, dir_missing=False, initial=None):
    return {'dir_missing': dir_missing, 'initial': initial, 'handles': handles, 'items': items, 'pseed': 1}


def directed_histories():
    p1 = 'F0:F1:F2:F3:F4:F5'
    out = []
    # D15: default namespace adopts the single namespace of the file, then mutates
    for op2 in ({'op': 'update', 'name': 'B', 'keys': {'irk': K('02' * 16)}}, {'op': 'delete', 'name': p1}, {'op': 'delete_all'}):
        out.append(_fixed([{'h': 'NS1', 'op': 'update', 'name': p1, 'keys': {'ltk': K('01' * 16, True, 0, '')}},
                           dict({'h': None}, **op2),
                           {'h': 'NS1', 'op': 'get_all'}, {'h': None, 'op': 'get_all'}], ['NS1', DEFAULT]))
    # every field combination of one key, and the merge of two updates
    for auth in (False, True):
        for ediv in (None, 0, 65535):
            for rand in (None, '', 'ff' * 8):
                out.append(_fixed([{'h': 'NS1', 'op': 'update', 'name': p1,
                                    'keys': {'ltk': K('00' * 16, auth, ediv, rand), 'address_type': 0, 'link_key_type': 0}},
                                   {'h': 'NS1', 'op': 'get', 'name': p1, 'reopen': True},
                                   {'h': 'NS1', 'op': 'update', 'name': p1, 'keys': {'irk': K('aa', not auth)}},
                                   {'h': 'NS1', 'op': 'get', 'name': p1, 'reopen': True}], ['NS1', DEFAULT]))
    # two namespaces and the default handle sharing one file, directory created by the first save
    out.append(_fixed([{'h': 'NS1', 'op': 'update', 'name': 'A', 'keys': {'csrk': K('11')}},
                       {'h': 'A', 'op': 'update', 'name': 'A', 'keys': {'csrk': K('22')}},
                       {'h': None, 'op': 'update', 'name': 'A', 'keys': {'csrk': K('33')}},
                       {'h': 'NS1', 'op': 'delete_all'}, {'h': 'A', 'op': 'get_all'}, {'h': None, 'op': 'get_all'},
                       {'h': 'A', 'op': 'delete', 'name': 'A'}, {'h': 'A', 'op': 'delete', 'name': 'A'}],
                      ['NS1', 'A', DEFAULT], dir_missing=True))
    for text in INITIAL_FILES:
        out.append(_fixed([{'h': None, 'op': 'get_all'}, {'h': 'NS1', 'op': 'get', 'name': 'A'},
                           {'h': 'NS1', 'op': 'update', 'name': 'A', 'keys': {'irk': K('0b', True)}},
                           {'h': None, 'op': 'get_all'}, {'h': 'A', 'op': 'delete_all'}], ['NS1', 'A', DEFAULT], initial=text))
    return out


def load_corpus(ctx):
    d = os.path.join(os.path.dirname(BUILD), 'corpus', 'C15')
    out = []
    if os.path.isdir(d):
        for n in sorted(os.listdir(d)):
            if n.endswith('.json'):
                with open(os.path.join(d, n)) as f:
                    out.append(json.load(f)['history'])
    return out


# ----------------------------------------------------------------------------- run
def _scratch_root():
    return os.path.join(BUILD, 'c15', str(os.getpid()))


def _nontrivial(hist, res):
    muts = [r for it, r in zip(hist['items'], res['items']) if it['op'] in MUTATING and r['steps']]
    return len(muts) >= 2


def run(ctx):
    ctx.rule = ('histories of update/delete/delete_all/get/get_all over 1-4 peers and 1-3 namespaces plus the default '
                'handle sharing one real file, stores re-created at random, random PairingKeys field combinations '
                '(ediv 0/65535/large/negative, empty rand, both authenticated values, address/link-key types), sometimes a '
                'missing directory or a file written by another tool; in-line crashes continue the history from the '
                'crashed files. For every mutating operation the real step list is recorded and the operation is '
                're-run from the same files with the process dying before step k (first two, last three steps and '
                'three random ones, writes with a random cut; every step and three cuts per write in the short '
                'histories of the sweep). Non-trivial: at '
                'least two saving operations; distinct by content.')
    ctx.assumptions += [
        'os.replace is atomic and a process crash loses no write that reached the file (no power-loss model)',
        'names of namespaces and peers are printable ASCII without double quote and backslash (no JSON escapes)',
        'one process at a time uses the file (JsonKeyStore operations contain no real await)',
    ]
    ctx.trusted += ['Model/KeyStore.v is a hand-written reading of bumble/keys.py, tied to the code by differential '
                    'execution on real files (results, file text, file-system step lists, post-crash states)',
                    'the in-process wrappers of open/write/close/os.replace/mkdir used to record and cut file-system steps']
    rng = ctx.rng
    runner = Runner(_scratch_root())
    cases = []          # (history, sweep)
    for h in load_corpus(ctx):
        cases.append((h, 'all'))
    for h in directed_histories():
        cases.append((h, 'sample' if ctx.quick() else 'all'))
    for _ in range(ctx.n(64, 1500)):
        cases.append((gen_history(rng, rng.choice([3, 5, 8, 12] if ctx.quick() else [3, 6, 10, 16])), 'sample'))
    for _ in range(ctx.n(8, 250)):
        cases.append((gen_history(rng, rng.choice([2, 4, 6]), small=True, crashes=False), 'all'))
    try:
        batch = []
        for hist, sweep in cases:
            res = runner.run_history(hist, sweep)
            batch.append((hist, res))
            ctx.count('histories')
            ctx.count('histories.sweep_' + sweep)
            for it, row in zip(hist['items'], res['items']):
                ctx.count('op.' + it['op'])
                ctx.count('crash_points', len(row['points']))
                if row.get('crashed'):
                    ctx.count('inline_crashes')
                if it.get('reopen'):
                    ctx.count('reopened')
                for s in row['steps']:
                    ctx.count('step.' + s[0])
            if hist['dir_missing']:
                ctx.count('histories.directory_missing')
            if hist.get('initial') is not None:
                ctx.count('histories.foreign_initial_file')
            for sig, what in res['violations']:
                ctx.violation(sig, what, {'history': hist, 'sweep': sweep})
        ctx.log(f'implementation: {len(batch)} histories run')
        exprs = [model_expr(h, r) for h, r in batch]
        model = ctx.coq_eval(['Model.KeyStore'], exprs, shard=16 if ctx.quick() else 40)
        ctx.log('model evaluated')
        k = 0
        for (hist, res), mres in zip(batch, model):
            ok = compare(ctx, hist, res, mres)
            ctx.case(json.dumps(hist, sort_keys=True), _nontrivial(hist, res),
                     {'history': hist} if k % 60 == 3 and len(hist['items']) <= 4 else None)
            k += 1
        run_from_device(ctx)
    finally:
        runner.close()
        shutil.rmtree(_scratch_root(), ignore_errors=True)


def run_from_device(ctx):
    """JsonKeyStore.from_device on stand-in devices: namespace and file name against the model"""
    import pathlib as _pl
    from types import SimpleNamespace
    from bumble import hci
    from bumble.keys import JsonKeyStore
    pubs = [(hci.Address.ANY, True), (hci.Address.ANY_RANDOM, True),
            (hci.Address('F0:F1:F2:F3:F4:F5', hci.Address.PUBLIC_DEVICE_ADDRESS), False),
            (hci.Address('00:00:00:00:00:01', hci.Address.PUBLIC_DEVICE_ADDRESS), False)]
    rnds = [(hci.Address.ANY_RANDOM, True), (hci.Address('C4:C5:C6:C7:C8:C9', hci.Address.RANDOM_DEVICE_ADDRESS), False)]
    cfgs = [None, 'JsonKeyStore', 'JsonKeyStore:', 'JsonKeyStore:/x/y.json', 'JsonKeyStore:/x/a:b.json', 'JsonKeyStore:rel.json']
    explicit = [None, '', '/z/k.json']
    cases = [(p, r, c, e) for p in pubs for r in rnds for c in cfgs for e in explicit]
    exprs = []
    for (p, pa), (r, ra), c, e in cases:
        exprs.append(f"(from_device_ns {'true' if pa else 'false'} {coq_str(str(p))} {'true' if ra else 'false'} "
                     f"{coq_str(str(r))}, from_device_filename {coq_opt(e, coq_str)} {coq_opt(c, coq_str)})")
    model = ctx.coq_eval(['Model.KeyStore'], exprs)
    for ((p, pa), (r, ra), c, e), (m_ns, m_fn) in zip(cases, model):
        dev = SimpleNamespace(config=SimpleNamespace(keystore=c), public_address=p, random_address=r)
        case = {'public': str(p), 'random': str(r), 'keystore': c, 'filename': e}
        try:
            st = JsonKeyStore.from_device(dev, e)
            got_ns = st.namespace
            got_fn = st.filename
        except Exception as ex:
            ctx.disagree('from_device', case, [py_str(m_ns), m_fn], ('raised', type(ex).__name__))
            continue
        ctx.case(('from_device', str(p), str(r), c, e), True, None)
        ctx.count('from_device.cases')
        want_ns = py_str(m_ns)
        ok = got_ns == want_ns
        if m_fn is not None:
            ok = ok and got_fn == _pl.Path(py_str(m_fn[1])).resolve()
        else:
            ok = ok and got_fn.name == got_ns.lower().replace(':', '-').replace('/', '-') + '.json'
        if not ok:
            ctx.disagree('from_device', case, [want_ns, None if m_fn is None else py_str(m_fn[1])], [got_ns, str(got_fn)])
        # oracle: the namespace is a device address when the device has one, never empty
        if not got_ns or (not pa and got_ns != str(p)):
            ctx.violation('from_device:namespace', f'from_device {case}: namespace {got_ns!r}', {'from_device': case})


def unknown_fields_roundtrip(ctx, runner):
    """fields of PairingKeys the model does not know (added since the model was read): store a value,
    read it back through a fresh store, compare"""
    import dataclasses
    from bumble.keys import JsonKeyStore, PairingKeys
    extra = [f.name for f in dataclasses.fields(PairingKeys) if f.name not in FIELDS]
    if not extra:
        return
    sc = Scratch(os.path.join(runner.scratch_root, 'fields'), False)
    try:
        for name in extra:
            for value in (1, 'x', True, PairingKeys.Key(b'\x01' * 16)):
                try:
                    pk = PairingKeys(**{name: value})
                    runner.loop.run_until_complete(JsonKeyStore('NS1', sc.main).update('A', pk))
                    back = runner.loop.run_until_complete(JsonKeyStore('NS1', sc.main).get('A'))
                    ok = back is not None and getattr(back, name) == value
                except Exception:
                    continue      # a value of the wrong type for this field
                if not ok:
                    ctx.violation(f'roundtrip:field:{name}',
                                  f'PairingKeys({name}={value!r}) stored by update() reads back as '
                                  f'{getattr(back, name, None)!r}: the field is not serialised',
                                  {'unknown_field': name, 'value': repr(value)})
                    return
    finally:
        sc.done()


def search(ctx):
    """Directed search after a broken proof / correspondence: fields the model does not know; every crash
    point of every operation in the directed histories and in short random ones, oracle only."""
    runner = Runner(_scratch_root())
    try:
        unknown_fields_roundtrip(ctx, runner)
        if ctx.violations:
            return
        rng = ctx.rng.fork('search')
        cases = directed_histories() + [gen_history(rng, 5, small=True, crashes=False) for _ in range(150)]
        for hist in cases:
            res = runner.run_history(hist, 'all')
            for sig, what in res['violations']:
                ctx.violation(sig, what, {'history': hist, 'sweep': 'all'})
            if res['violations']:
                return
    finally:
        runner.close()
        shutil.rmtree(_scratch_root(), ignore_errors=True)


def replay(ctx, obj):
    r = obj['replay']
    runner = Runner(_scratch_root())
    if 'unknown_field' in r:
        try:
            unknown_fields_roundtrip(ctx, runner)
            print('oracle:', 'VIOLATED ' + ctx.violations[0]['what'] if ctx.violations else 'holds')
        finally:
            runner.close()
            shutil.rmtree(_scratch_root(), ignore_errors=True)
        return 0
    if 'from_device' in r:
        print('from_device case', r['from_device'], '- re-run ./check C15 for the verdict')
        return 0
    try:
        res = runner.run_history(r['history'], r.get('sweep', 'all'))
        for it, row in zip(r['history']['items'], res['items']):
            print(it['op'], 'via', it['h'], '->', _short(row['outcome']), _steps_short(row['steps']))
        if res['violations']:
            for sig, what in res['violations']:
                print('oracle: VIOLATED', sig, '-', what)
        else:
            print('oracle: holds')
    finally:
        runner.close()
        shutil.rmtree(_scratch_root(), ignore_errors=True)
    return 0
