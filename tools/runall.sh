#!/bin/bash
# runall.sh [tier] [props...]: run checks sequentially, one summary line each
TIER=${1:-quick}; shift
HERE="$(cd "$(dirname "$0")/.." && pwd)"
PROPS=${@:-$(python3 -c "import json;print(' '.join(c['property_id'] for c in json.load(open('$HERE/MANIFEST.json'))['checks']))")}
cd "$HERE"; mkdir -p build
for p in $PROPS; do
  s=$(date +%s)
  ./check $p --tier $TIER > build/run_$p.log 2>&1; rc=$?
  e=$(date +%s)
  echo "$p rc=$rc $((e-s))s V=$(grep -c '^VIOLATION' build/run_$p.log) K=$(grep -c '^KNOWN-FINDING' build/run_$p.log)"
done
