#!/usr/bin/env python3
"""Rewrites section 11 of DESIGN.md from docs/Cxx.md and section 12 from seeded/*/meta.json."""
import glob, json, os, re
V = '/verif'
s = open(f'{V}/DESIGN.md').read()
head = s[:s.index('## 11. As built, per property')]
import subprocess
n = 0
for f in glob.glob(f'{V}/coq/Props/C*.v'):
    n += len(re.findall(r'^\s*(?:Theorem|Lemma|Corollary)\s', open(f).read(), flags=re.M))
head = re.sub(r'\(\d+ at the last regeneration\)', f'({n} at the last regeneration)', head)
out = [head, '## 11. As built, per property\n\n',
       'These reports were written by whoever built each check, when it was finished (the files are `docs/Cxx.md`;\n'
       'this section is regenerated from them by `tools/mkdesign.py`). Each states the model scope, the theorems,\n'
       'the tie to the code, the defects found, the seeded edits tried during construction, and what is not covered.\n\n']
for p in sorted(glob.glob(f'{V}/docs/C*.md')):
    t = open(p).read().strip()
    # demote headings so that they nest under section 11
    t = re.sub(r'^(#+) ', lambda m: '#' * min(6, len(m.group(1)) + 2) + ' ', t, flags=re.M)
    out.append(f'\n<!-- {os.path.basename(p)} -->\n' + t + '\n')
out.append('\n## 12. Seeded changes and which checks catch them\n\n'
           'Independent sub-agents were given only a property\'s text and a scratch worktree (nothing from /verif) and asked\n'
           'for a change that breaks the property while the test suite still passes, needing something specific to manifest.\n'
           'Each change was re-confirmed (test suite passes with it, demo fails with it and passes without) and is kept in\n'
           '`seeded/<id>/` (`patch.diff`, `demo.py`, `meta.json`). "caught" = the property\'s quick check, run against\n'
           '/repo HEAD + the change, printed a VIOLATION line.\n\n'
           '| id | property | caught | how / note | what was changed | needs |\n|---|---|---|---|---|---|\n')
for p in sorted(glob.glob(f'{V}/seeded/*/meta.json')):
    m = json.load(open(p))
    c = lambda x: str(x).replace('|', '/').replace('\n', ' ')
    how = m.get('detected_note', '')
    if not how and m.get('detected_by_check'):
        how = 'no-failing-input-found (correspondence/proof broke)' if 'no-failing-input-found' in m.get('check_output', '') else 'oracle: failing input with replay'
    out.append(f"| {m['id']} | {m['property']} | {'yes' if m.get('detected_by_check') else 'NO'} | {c(how)} | {c(m.get('summary',''))[:400]} | {c(m.get('needs',''))[:300]} |\n")
fr = f'{V}/seeded/fix-reverts.json'
if os.path.exists(fr):
    d = json.load(open(fr))
    rows = d['rows']
    n = lambda k: sum(1 for r in rows if r['result'] == k)
    out.append('\n### 12.1 Repaired defects that return\n\n'
               'A `fixed:` entry suppresses nothing. To check that, ' + d['what'] + f" (`tools/seeding/revert_fix.sh`; {len(rows)} commits): "
               f"{n('violation-with-replay')} are reported again as a VIOLATION with a concrete replay, {n('violation-no-failing-input')} only through a "
               f"broken obligation (no-failing-input-found), {n('revert-conflicts')} could not be reverted in isolation, {n('MISSED')} missed. Exceptions:\n\n")
    for r in rows:
        if r['result'] != 'violation-with-replay' or r.get('note'):
            out.append(f"* {r['id']} ({r['property']}, {r['commit']}): {r['result']}" + (f" — {r['note']}" if r.get('note') else '') + '\n')
open(f'{V}/DESIGN.md', 'w').write(''.join(out))
print('DESIGN.md regenerated:', len(''.join(out)), 'bytes')
